package main

// Value shapes: every Go value is flattened into a list of scalar "leaves"
// (Bool / bit-vector terms). Pointers are kept as analysis-level addresses.

import (
	"fmt"
	"go/types"
	"os"
	"runtime/debug"
	"strings"

	"golang.org/x/tools/go/ssa"
)

const (
	RefSort    Sort = 32 // heap object references, map/chan refs, func ids, iface tags
	RegionSort Sort = 64
	IntSort    Sort = 64 // int / uint / uintptr on the modelled target
)

var intBits = 64 // 64 on amd64/arm64; 32 when re-proving for GOARCH=arm

type LeafKind int

const (
	LScalar LeafKind = iota // integer / bool
	LRef                    // pointer to heap object (pointee in Leaf.elem)
	LRegion                 // region id of slice / string / array pointer
	LOff
	LLen
	LCap
	LTag    // interface type tag
	LHandle // interface payload handle
	LMap
	LChan
	LFunc
)

type Leaf struct {
	path string
	sort Sort
	kind LeafKind
	typ  types.Type // Go type the leaf belongs to (slice type for LRegion.., pointer type for LRef)
}

var leafCache = map[types.Type][]Leaf{}

var lenientNow bool

type unsupported struct{ msg string }

func (u unsupported) Error() string { return "unsupported: " + u.msg }

func unsup(format string, a ...interface{}) {
	if os.Getenv("GOVC_DEBUG") != "" && !lenientNow {
		debug.PrintStack()
	}
	panic(unsupported{fmt.Sprintf(format, a...)})
}

func basicSort(b *types.Basic) Sort {
	switch b.Kind() {
	case types.Bool, types.UntypedBool:
		return BoolSort
	case types.Int8, types.Uint8:
		return 8
	case types.Int16, types.Uint16:
		return 16
	case types.Int32, types.Uint32, types.UntypedRune:
		return 32
	case types.Int64, types.Uint64:
		return 64
	case types.Int, types.Uint, types.Uintptr, types.UntypedInt:
		return Sort(intBits)
	case types.UnsafePointer:
		return 64
	case types.Float32:
		return 32
	case types.Float64, types.UntypedFloat:
		return 64
	}
	return -1
}

func isSigned(t types.Type) bool {
	if b, ok := t.Underlying().(*types.Basic); ok {
		return b.Info()&types.IsInteger != 0 && b.Info()&types.IsUnsigned == 0
	}
	return false
}

func isArrayPtr(t types.Type) (*types.Array, bool) {
	if p, ok := t.Underlying().(*types.Pointer); ok {
		if a, ok := p.Elem().Underlying().(*types.Array); ok {
			return a, true
		}
	}
	return nil, false
}

const maxValueArray = 64 // arrays up to this length may exist as values (tuples)

// leavesOf flattens a type.
func leavesOf(t types.Type) []Leaf {
	if l, ok := leafCache[t]; ok {
		return l
	}
	var out []Leaf
	switch u := t.Underlying().(type) {
	case *types.Basic:
		if u.Kind() == types.Invalid {
			out = []Leaf{}
		} else if u.Info()&types.IsString != 0 {
			out = []Leaf{{"$r", RegionSort, LRegion, t}, {"$o", IntSort, LOff, t}, {"$l", IntSort, LLen, t}}
		} else {
			s := basicSort(u)
			if s < 0 {
				unsup("basic type %s", u)
			}
			out = []Leaf{{"", s, LScalar, t}}
		}
	case *types.Pointer:
		if _, ok := isArrayPtr(t); ok {
			out = []Leaf{{"$r", RegionSort, LRegion, t}, {"$o", IntSort, LOff, t}}
		} else {
			out = []Leaf{{"", RefSort, LRef, t}}
		}
	case *types.Slice:
		out = []Leaf{{"$r", RegionSort, LRegion, t}, {"$o", IntSort, LOff, t}, {"$l", IntSort, LLen, t}, {"$c", IntSort, LCap, t}}
	case *types.Struct:
		for i := 0; i < u.NumFields(); i++ {
			f := u.Field(i)
			if arr, ok := f.Type().Underlying().(*types.Array); ok && arr.Len() > maxValueArray {
				// large arrays embedded in (heap) structs live in their own region and have no leaves
				continue
			}
			for _, l := range leavesOf(f.Type()) {
				p := f.Name()
				if l.path != "" {
					if strings.HasPrefix(l.path, "$") {
						p += l.path
					} else {
						p += "." + l.path
					}
				}
				out = append(out, Leaf{p, l.sort, l.kind, l.typ})
			}
		}
	case *types.Array:
		if u.Len() > maxValueArray {
			unsup("array value of length %d (%s)", u.Len(), t)
		}
		el := leavesOf(u.Elem())
		for i := int64(0); i < u.Len(); i++ {
			for _, l := range el {
				p := fmt.Sprintf("[%d]", i)
				if l.path != "" {
					p += "." + l.path
				}
				out = append(out, Leaf{p, l.sort, l.kind, l.typ})
			}
		}
	case *types.Interface:
		out = []Leaf{{"$t", RefSort, LTag, t}, {"$h", 64, LHandle, t}}
	case *types.Map:
		out = []Leaf{{"", RefSort, LMap, t}}
	case *types.Chan:
		out = []Leaf{{"", RefSort, LChan, t}}
	case *types.Signature:
		out = []Leaf{{"", RefSort, LFunc, t}}
	case *types.Tuple:
		for i := 0; i < u.Len(); i++ {
			for _, l := range leavesOf(u.At(i).Type()) {
				out = append(out, Leaf{fmt.Sprintf("#%d.%s", i, l.path), l.sort, l.kind, l.typ})
			}
		}
	default:
		unsup("type %s (%T)", t, t.Underlying())
	}
	leafCache[t] = out
	return out
}

func nLeaves(t types.Type) int { return len(leavesOf(t)) }

// fieldRange returns the leaf index range of field i within struct type t.
func fieldRange(t types.Type, i int) (int, int) {
	st := t.Underlying().(*types.Struct)
	lo := 0
	for k := 0; k < i; k++ {
		lo += fieldLeaves(st.Field(k).Type())
	}
	return lo, lo + fieldLeaves(st.Field(i).Type())
}

func fieldLeaves(t types.Type) int {
	if arr, ok := t.Underlying().(*types.Array); ok && arr.Len() > maxValueArray {
		return 0
	}
	return nLeaves(t)
}

// ---------- addresses ----------

type AddrKind int

const (
	AHeap   AddrKind = iota // (interior of) heap object: root type, ref
	ALocal                  // (interior of) local cell
	AElem                   // (interior of) element idx of a region
	AArr                    // pointer to array [N]T living in region at offset
	AGlobal                 // (interior of) package-level variable
)

type cellKey struct {
	frame int
	alloc *ssa.Alloc
}

type Addr struct {
	kind AddrKind
	typ  types.Type // pointee type at this address
	// AHeap
	root types.Type // pointee type of the enclosing object
	ref  *Term
	off  int // leaf offset within root / cell / element
	// ALocal
	cell cellKey
	// AElem / AArr
	elem   types.Type // element type of the region
	region *Term
	idx    *Term
	n      int64 // AArr: array length
	// AGlobal
	global *ssa.Global
}

type Closure struct {
	fn       *ssa.Function
	bindings []Value
}

type Value struct {
	T []*Term
	A *Addr
	C *Closure
}

func scalar(t *Term) Value { return Value{T: []*Term{t}} }

func (v Value) term() *Term {
	if len(v.T) != 1 {
		panic(fmt.Sprintf("term(): value has %d leaves", len(v.T)))
	}
	return v.T[0]
}

// typeKey gives a stable name for memory naming.
func typeKey(t types.Type) string {
	return types.TypeString(t, func(p *types.Package) string { return p.Path() })
}

// zeroTerms returns the zero value leaves of type t.
func zeroTerms(t types.Type) []*Term {
	ls := leavesOf(t)
	out := make([]*Term, len(ls))
	for i, l := range ls {
		if l.sort == BoolSort {
			out[i] = False
		} else {
			out[i] = BVConst(0, l.sort)
		}
	}
	return out
}

// freshTerms returns unconstrained leaves of type t.
func freshTerms(prefix string, t types.Type) []*Term {
	ls := leavesOf(t)
	out := make([]*Term, len(ls))
	for i, l := range ls {
		out[i] = FreshVar(prefix+"."+l.path, l.sort)
	}
	return out
}

// namedTerms returns leaves named deterministically (for parameters: models refer to them).
func namedTerms(prefix string, t types.Type) []*Term {
	ls := leavesOf(t)
	out := make([]*Term, len(ls))
	for i, l := range ls {
		n := prefix
		if l.path != "" {
			n += "." + l.path
		}
		out[i] = Var(n, l.sort)
	}
	return out
}

// Region id layout (64-bit): top nibble tags the allocation class so that
// classes can never alias:
//
//	0x0..0xB  pre-existing mutable memory (parameters, heap slices)
//	0xC       pre-existing dynamic strings
//	0xD       string literals / immutable global data
//	0xE       arrays embedded in heap objects: 0xE | fieldId<<32 | ref
//	0xF       allocations made during the verified call
func regionNibble(r *Term) *Term { return Extract(r, 63, 60) }

// wfAssumptions returns the type-based well-formedness facts for pre-existing
// values of type t (parameters, values read from pre-existing memory).
func wfAssumptions(ts []*Term, t types.Type, fresh bool) *Term {
	ls := leavesOf(t)
	var cs []*Term
	cs = netipFacts(cs, ts, t, 0)
	lim := BVConstU(1<<48, IntSort)
	for i := 0; i < len(ls); i++ {
		l := ls[i]
		switch l.kind {
		case LRegion:
			r := ts[i]
			_, isStr := l.typ.Underlying().(*types.Basic)
			if _, isAP := isArrayPtr(l.typ); isAP {
				// (region, off)
				cs = append(cs, BVUlt(ts[i+1], lim))
				if !fresh {
					cs = append(cs, Neq(regionNibble(r), BVConst(0xF, 4)))
					if r.op == "var" {
						regionClass[r.id] = 0x7FFF
					}
				}
				continue
			}
			off, ln := ts[i+1], ts[i+2]
			cs = append(cs, BVUlt(off, lim), BVUlt(ln, lim))
			if isStr {
				// strings: region 0 <=> empty string allowed; len bound
				if !fresh {
					nb := regionNibble(r)
					cs = append(cs, Or(Eq(nb, BVConst(0xC, 4)), Eq(nb, BVConst(0xD, 4)), And(Eq(r, BVConst(0, 64)), Eq(ln, BVConst(0, IntSort)))))
					if r.op == "var" {
						regionClass[r.id] = maskPreString
					}
				}
			} else {
				cp := ts[i+3]
				cs = append(cs, BVUlt(cp, lim), BVUle(ln, cp))
				cs = append(cs, Implies(Eq(r, BVConst(0, 64)), And(Eq(cp, BVConst(0, IntSort)), Eq(off, BVConst(0, IntSort)))))
				if !fresh {
					nb := regionNibble(r)
					cs = append(cs, Or(BVUlt(nb, BVConst(0xC, 4)), Eq(nb, BVConst(0xE, 4))))
					if r.op == "var" {
						regionClass[r.id] = maskPreMutable
					}
				}
			}
		case LRef, LMap, LChan:
			if !fresh {
				cs = append(cs, BVUlt(ts[i], BVConstU(0x80000000, RefSort)))
			}
		}
	}
	return And(cs...)
}

// netipFacts: type invariant of net/netip.Addr values (no IPv6 zones):
// z is one of z0 (invalid, address 0), z4 (hi == 0, lo>>32 == 0xffff) or z6noz.
func netipFacts(cs []*Term, ts []*Term, t types.Type, base int) []*Term {
	if nt, ok := t.(*types.Named); ok && nt.Obj().Pkg() != nil && nt.Obj().Pkg().Path() == "net/netip" && nt.Obj().Name() == "Addr" {
		hi, lo, z := ts[base], ts[base+1], ts[base+2]
		z0 := Eq(z, BVConst(0, RefSort))
		z4 := Eq(z, BVConst(0x7fff0004, RefSort))
		z6 := Eq(z, BVConst(0x7fff0006, RefSort))
		cs = append(cs, Or(z0, z4, z6))
		cs = append(cs, Implies(z0, And(Eq(hi, BVConst(0, 64)), Eq(lo, BVConst(0, 64)))))
		cs = append(cs, Implies(z4, And(Eq(hi, BVConst(0, 64)), Eq(Extract(lo, 63, 32), BVConst(0xffff, 32)))))
		return cs
	}
	if nt, ok := t.(*types.Named); ok && nt.Obj().Pkg() != nil && nt.Obj().Pkg().Path() == "net/netip" && nt.Obj().Name() == "Prefix" && base+3 < len(ts) {
		// type invariant of netip.Prefix (no exported constructor breaks it): the prefix length fits
		// the address family; the zero Prefix has the zero Addr
		z, bp := ts[base+2], ts[base+3]
		if bp.sort == 8 {
			z0 := Eq(z, BVConst(0, RefSort))
			z4 := Eq(z, BVConst(0x7fff0004, RefSort))
			cs = append(cs, Implies(z0, Eq(bp, BVConst(0, 8))))
			cs = append(cs, Implies(z4, BVUle(bp, BVConst(33, 8))))
			cs = append(cs, BVUle(bp, BVConst(129, 8)))
		}
	}
	switch u := t.Underlying().(type) {
	case *types.Struct:
		off := base
		for i := 0; i < u.NumFields(); i++ {
			if fieldLeaves(u.Field(i).Type()) == 0 {
				continue // (large embedded arrays have no leaves)
			}
			cs = netipFacts(cs, ts, u.Field(i).Type(), off)
			off += fieldLeaves(u.Field(i).Type())
		}
	case *types.Array:
		if u.Len() <= maxValueArray {
			n := nLeaves(u.Elem())
			for i := int64(0); i < u.Len(); i++ {
				cs = netipFacts(cs, ts, u.Elem(), base+int(i)*n)
			}
		}
	case *types.Tuple:
		off := base
		for i := 0; i < u.Len(); i++ {
			cs = netipFacts(cs, ts, u.At(i).Type(), off)
			off += nLeaves(u.At(i).Type())
		}
	}
	return cs
}
