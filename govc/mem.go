package main

// Memories: named maps from key tuples to scalars, represented as symbolic
// write chains over an uninterpreted base. Reads are pushed through the chain
// so that no array theory and no quantifier reaches the solver.

import (
	"os"
	"fmt"
	"math/big"
	"strings"
)

type bigIntT = big.Int

type MemKind int

const (
	MBase  MemKind = iota // uninterpreted function
	MWrite                // point write
	MCopy                 // range copy (memmove) into (region, [dst, dst+n)) from a snapshot
	MFill                 // whole region filled with a constant value (fresh allocations)
	MHavoc                // range (region, [lo, hi)) replaced by fresh contents
	MMerge                // control-flow join
	MHavocRegions         // every index of the listed regions replaced by fresh contents
	MHavocFresh           // every region allocated after `seq` replaced by fresh contents
)

// writeLog, when set, records the region of every write to a two-key memory.
var writeLog func(name string, region *Term)

var readCalls, readIters, readHits, readDepth, readTop, spawnIte, spawnCopy, spawnMerge int
var readKinds = map[MemKind]int{}

var noMergeRestrict = os.Getenv("GOVC_NO_MERGE_RESTRICT") != ""

func logWrite(m *Mem, region *Term) {
	if writeLog != nil && (len(m.ksort) == 2 || len(m.ksort) == 1 || strings.HasPrefix(m.name, "map:")) {
		writeLog(m.name, region)
	}
}

type Mem struct {
	id    int
	kind  MemKind
	name  string
	sort  Sort
	ksort []Sort
	prev  *Mem
	// base / havoc
	uf string
	// write
	keys []*Term
	val  *Term
	// copy
	region, dst, n    *Term
	src               *Mem
	srcRegion, srcOff *Term
	// havoc
	lo, hi *Term
	// merge
	cond *Term
	a, b *Mem
	// havoc regions
	regions []*Term

	cache map[string]*Term
	skip  map[int]*Mem // region term id -> nearest ancestor-or-self that may hold cells of that region
}

// skipFor: the nearest node of the chain (this one included) that may affect cells of region r;
// nodes that write a syntactically different region are passed over. Memoised per region.
func (m *Mem) skipFor(r *Term) *Mem {
	var path []*Mem
	cur := m
	for cur != nil {
		if s, ok := cur.skip[r.id]; ok {
			cur = s
			break
		}
		var nr *Term
		switch cur.kind {
		case MWrite:
			if len(cur.keys) == 2 {
				nr = cur.keys[0]
			}
		case MCopy, MFill, MHavoc:
			nr = cur.region
		}
		if nr == nil || EqOff(r, nr) != False {
			break
		}
		path = append(path, cur)
		cur = cur.prev
	}
	for _, p := range path {
		if p.skip == nil {
			p.skip = map[int]*Mem{}
		}
		p.skip[r.id] = cur
	}
	return cur
}

var memNext int
var memIntern = map[string]*Mem{}

func memKeyOf(m *Mem) string {
	var sb strings.Builder
	fmt.Fprintf(&sb, "%d|%s|%s|", m.kind, m.name, m.uf)
	if m.prev != nil {
		fmt.Fprintf(&sb, "p%d|", m.prev.id)
	}
	for _, k := range m.keys {
		fmt.Fprintf(&sb, "k%d,", k.id)
	}
	for _, t := range []*Term{m.val, m.region, m.dst, m.n, m.srcRegion, m.srcOff, m.lo, m.hi, m.cond} {
		if t != nil {
			fmt.Fprintf(&sb, "t%d,", t.id)
		} else {
			sb.WriteString("_,")
		}
	}
	for _, x := range []*Mem{m.src, m.a, m.b} {
		if x != nil {
			fmt.Fprintf(&sb, "m%d,", x.id)
		} else {
			sb.WriteString("_,")
		}
	}
	for _, r := range m.regions {
		fmt.Fprintf(&sb, "r%d,", r.id)
	}
	return sb.String()
}

func internMem(m *Mem) *Mem {
	k := memKeyOf(m)
	if o, ok := memIntern[k]; ok {
		return o
	}
	memNext++
	m.id = memNext
	m.cache = map[string]*Term{}
	memIntern[k] = m
	return m
}

func NewBaseMem(name string, ksort []Sort, sort Sort, uf string) *Mem {
	return internMem(&Mem{kind: MBase, name: name, sort: sort, ksort: ksort, uf: sanitize(uf)})
}

func (m *Mem) derive(k MemKind) *Mem {
	return &Mem{kind: k, name: m.name, sort: m.sort, ksort: m.ksort, prev: m}
}

func (m *Mem) Write(keys []*Term, val *Term) *Mem {
	if val.sort != m.sort {
		panic(fmt.Sprintf("mem %s: write sort %v into %v", m.name, val.sort, m.sort))
	}
	if len(keys) == 2 || len(keys) == 1 {
		logWrite(m, keys[0])
	}
	n := m.derive(MWrite)
	n.keys = keys
	n.val = val
	return internMem(n)
}

func (m *Mem) Copy(region, dst, n *Term, src *Mem, srcRegion, srcOff *Term) *Mem {
	if n.IsConst() && n.val.Sign() == 0 {
		return m
	}
	logWrite(m, region)
	x := m.derive(MCopy)
	x.region, x.dst, x.n, x.src, x.srcRegion, x.srcOff = region, dst, n, src, srcRegion, srcOff
	return internMem(x)
}

func (m *Mem) Fill(region *Term, val *Term) *Mem {
	logWrite(m, region)
	x := m.derive(MFill)
	x.region, x.val = region, val
	return internMem(x)
}

func (m *Mem) HavocRange(region, lo, hi *Term) *Mem {
	logWrite(m, region)
	x := m.derive(MHavoc)
	x.region, x.lo, x.hi = region, lo, hi
	x.uf = FreshName("hv." + m.name)
	return internMem(x)
}

func (m *Mem) HavocRegions(regions []*Term) *Mem {
	if len(regions) == 0 {
		return m
	}
	x := m.derive(MHavocRegions)
	x.regions = regions
	x.uf = FreshName("hvr." + m.name)
	return internMem(x)
}

// HavocFresh replaces the contents of every region allocated after seq.
func (m *Mem) HavocFresh(seq uint64) *Mem {
	x := m.derive(MHavocFresh)
	x.lo = BVConstU(0xF000000000000000+seq, RegionSort)
	x.uf = FreshName("hvf." + m.name)
	return internMem(x)
}

func MergeMem(c *Term, a, b *Mem) *Mem {
	if a == b {
		return a
	}
	if c == True {
		return a
	}
	if c == False {
		return b
	}
	x := &Mem{kind: MMerge, name: a.name, sort: a.sort, ksort: a.ksort, cond: c, a: a, b: b}
	return internMem(x)
}

func keyStr(keys []*Term) string {
	var sb strings.Builder
	for _, k := range keys {
		fmt.Fprintf(&sb, "%d,", k.id)
	}
	return sb.String()
}

func keysEq(a, b []*Term) *Term {
	cs := make([]*Term, len(a))
	for i := range a {
		cs[i] = EqOff(a[i], b[i])
	}
	return And(cs...)
}

// Read returns the value stored at keys.
func (m *Mem) Read(keys []*Term) *Term {
	if len(keys) != len(m.ksort) {
		panic(fmt.Sprintf("mem %s: %d keys, want %d", m.name, len(keys), len(m.ksort)))
	}
	if litLookup != nil && len(keys) == 2 && m.sort == 8 {
		if v, ok := litLookup(keys); ok {
			return v
		}
	}
	// a region that is a choice between regions (merged control flow): read each alternative,
	// so that every branch is resolved against the chain syntactically
	if len(keys) == 2 && keys[0].op == "ite" && iteDepth(keys[0]) <= 3 {
		k := keys[0]
		spawnIte++
		a := m.Read([]*Term{k.args[1], restrictTerm(keys[1], k.args[0], true)})
		b := m.Read([]*Term{k.args[2], restrictTerm(keys[1], k.args[0], false)})
		return Ite(k.args[0], a, b)
	}
	// iterative descent over the prev chain to avoid deep recursion
	ks := keyStr(keys)
	type pend struct {
		m    *Mem
		cond *Term // condition under which this node supplies the value
		val  *Term
	}
	var stack []pend
	cur := m
	var tail *Term
	readCalls++
	readDepth++
	if readDepth == 1 {
		readTop++
	}
	defer func() { readDepth-- }()
	for {
		readIters++
		if len(keys) == 2 {
			cur = cur.skipFor(keys[0])
		}
		if r, ok := cur.cache[ks]; ok {
			tail = r
			readHits++
			break
		}
		readKinds[cur.kind]++
		switch cur.kind {
		case MBase:
			tail = UF(cur.uf, cur.sort, keys...)
			cur.cache[ks] = tail
		case MWrite:
			c := keysEq(keys, cur.keys)
			if c == True {
				tail = cur.val
				cur.cache[ks] = tail
			} else if c == False {
				cur = cur.prev
				continue
			} else {
				stack = append(stack, pend{cur, c, cur.val})
				cur = cur.prev
				continue
			}
		case MCopy:
			// keys = (region, idx)
			inR := And(EqOff(keys[0], cur.region), leOff(cur.dst, keys[1]), BVUlt(BVSub(keys[1], cur.dst), cur.n))
			if inR == False {
				cur = cur.prev
				continue
			}
			spawnCopy++
			v := cur.src.Read([]*Term{cur.srcRegion, BVAdd(cur.srcOff, BVSub(keys[1], cur.dst))})
			stack = append(stack, pend{cur, inR, v})
			cur = cur.prev
			continue
		case MFill:
			c := EqOff(keys[0], cur.region)
			if c == False {
				cur = cur.prev
				continue
			}
			stack = append(stack, pend{cur, c, cur.val})
			cur = cur.prev
			continue
		case MHavoc:
			c := And(EqOff(keys[0], cur.region), leOff(cur.lo, keys[1]), ltOff(keys[1], cur.hi))
			if c == False {
				cur = cur.prev
				continue
			}
			stack = append(stack, pend{cur, c, UF(cur.uf, cur.sort, keys...)})
			cur = cur.prev
			continue
		case MHavocRegions:
			var cs []*Term
			for _, r := range cur.regions {
				cs = append(cs, EqOff(keys[0], r))
			}
			c := Or(cs...)
			if c == False {
				cur = cur.prev
				continue
			}
			stack = append(stack, pend{cur, c, UF(cur.uf, cur.sort, keys...)})
			cur = cur.prev
			continue
		case MHavocFresh:
			if regionMask(keys[0])&(1<<15) == 0 || (isPreRegion(keys[0]) && havocFreshIsCallOnly(cur)) {
				cur = cur.prev
				continue
			}
			c := BVUlt(cur.lo, keys[0])
			if c == False {
				cur = cur.prev
				continue
			}
			stack = append(stack, pend{cur, c, UF(cur.uf, cur.sort, keys...)})
			cur = cur.prev
			continue
		case MMerge:
			// under the merge condition the keys themselves simplify: ite(c, x, y) is x on the
			// then-side and y on the else-side (keeps address terms syntactic, which the
			// quantifier instantiation matches on)
			spawnMerge++
			if noMergeRestrict {
				tail = Ite(cur.cond, cur.a.Read(keys), cur.b.Read(keys))
			} else {
				tail = Ite(cur.cond, cur.a.Read(restrictTerms(keys, cur.cond, true)), cur.b.Read(restrictTerms(keys, cur.cond, false)))
			}
			cur.cache[ks] = tail
		}
		break
	}
	for i := len(stack) - 1; i >= 0; i-- {
		p := stack[i]
		tail = Ite(p.cond, p.val, tail)
		p.m.cache[ks] = tail
	}
	return tail
}

// splitOff decomposes t into (base, constant offset) for bvadd chains.
func splitOff(t *Term) (*Term, *Term) {
	if t.op == "bvadd" && t.args[len(t.args)-1].IsConst() {
		rest := t.args[:len(t.args)-1]
		if len(rest) == 1 {
			return rest[0], t.args[len(t.args)-1]
		}
		return mk("bvadd", t.sort, rest...), t.args[len(t.args)-1]
	}
	return t, nil
}

// EqOff is Eq with one extra syntactic rule: x+c1 == x+c2 folds on the constants.
func EqOff(a, b *Term) *Term {
	if a == b {
		return True
	}
	if a.sort == RegionSort {
		// a choice between regions equals x only if one of the alternatives can
		if a.op == "ite" && iteDepth(a) <= 3 && EqOff(a.args[1], b) == False && EqOff(a.args[2], b) == False {
			return False
		}
		if b.op == "ite" && iteDepth(b) <= 3 && EqOff(a, b.args[1]) == False && EqOff(a, b.args[2]) == False {
			return False
		}
		if regionMask(a)&regionMask(b) == 0 {
			return False
		}
		// values read from the pre-state heap cannot name an allocation made during the call
		if isPreRegion(a) && isCallAlloc(b) || isPreRegion(b) && isCallAlloc(a) {
			return False
		}
		// a value obtained at some point cannot name an allocation made later
		if notAfter(a, b) || notAfter(b, a) {
			return False
		}
		if externCannotBe(a, b) || externCannotBe(b, a) {
			return False
		}
	}
	if a.sort != BoolSort && !(a.IsConst() && b.IsConst()) {
		ba, ca := splitOff(a)
		bb, cb := splitOff(b)
		if ba == bb && !ba.IsConst() {
			var x, y int
			_ = x
			_ = y
			za := ca == nil || ca.val.Sign() == 0
			zb := cb == nil || cb.val.Sign() == 0
			if za && zb {
				return True
			}
			if za != zb {
				return False
			}
			return BoolConst(ca.val.Cmp(cb.val) == 0)
		}
	}
	return Eq(a, b)
}

// regionClass records, for region-valued variables, the set of allocation
// classes (top nibble of the id) the value can belong to.
var regionClass = map[int]uint16{}

const (
	maskPreMutable uint16 = 0x0FFF | 1<<14
	maskPreString  uint16 = 1 | 1<<12 | 1<<13
)

func regionMask(t *Term) uint16 {
	switch t.op {
	case "const":
		return 1 << uint(new(bigIntT).Rsh(t.val, 60).Uint64())
	case "var":
		if m, ok := regionClass[t.id]; ok {
			return m
		}
	case "concat":
		if t.args[0].IsConst() && t.args[0].sort == 32 {
			return 1 << uint(t.args[0].val.Uint64()>>28)
		}
	case "ite":
		return regionMask(t.args[1]) | regionMask(t.args[2])
	}
	return 0xFFFF
}

// callAllocBase: region ids above this were allocated during the verified call
// (ids up to it belong to package initialisation).
var callAllocBase uint64

func isPreRegion(t *Term) bool {
	switch t.op {
	case "uf":
		return strings.HasPrefix(t.name, "M0.")
	case "ite":
		return isPreRegion(t.args[1]) && isPreRegion(t.args[2])
	case "const":
		return t.val.Uint64()>>60 != 0xF || t.val.Uint64()&0x0FFFFFFFFFFFFFFF <= callAllocBase
	}
	return false
}

func isCallAlloc(t *Term) bool {
	return t.op == "const" && t.val.Uint64()>>60 == 0xF && t.val.Uint64()&0x0FFFFFFFFFFFFFFF > callAllocBase
}

// stripRegions rebuilds a write chain without the writes into the given (dead)
// regions: stack arrays of a frame that has returned. Source snapshots of copy
// nodes are kept as they are, so values copied out of a dead array survive.
func stripRegions(m *Mem, dead map[uint64]bool, minID int, memo map[*Mem]*Mem) *Mem {
	if m == nil || m.id < minID || m.kind == MBase {
		return m
	}
	if r, ok := memo[m]; ok {
		return r
	}
	isDead := func(t *Term) bool {
		return t != nil && t.IsConst() && dead[t.val.Uint64()]
	}
	var res *Mem
	switch m.kind {
	case MWrite:
		p := stripRegions(m.prev, dead, minID, memo)
		if len(m.keys) == 2 && isDead(m.keys[0]) {
			res = p
		} else if p == m.prev {
			res = m
		} else {
			res = p.Write(m.keys, m.val)
		}
	case MCopy:
		p := stripRegions(m.prev, dead, minID, memo)
		if isDead(m.region) {
			res = p
		} else if p == m.prev {
			res = m
		} else {
			res = p.Copy(m.region, m.dst, m.n, m.src, m.srcRegion, m.srcOff)
		}
	case MFill:
		p := stripRegions(m.prev, dead, minID, memo)
		if isDead(m.region) {
			res = p
		} else if p == m.prev {
			res = m
		} else {
			res = p.Fill(m.region, m.val)
		}
	case MHavoc:
		p := stripRegions(m.prev, dead, minID, memo)
		if isDead(m.region) {
			res = p
		} else if p == m.prev {
			res = m
		} else {
			x := p.derive(MHavoc)
			x.region, x.lo, x.hi, x.uf = m.region, m.lo, m.hi, m.uf
			res = internMem(x)
		}
	case MHavocRegions, MHavocFresh:
		p := stripRegions(m.prev, dead, minID, memo)
		if p == m.prev {
			res = m
		} else {
			x := p.derive(m.kind)
			x.regions, x.lo, x.uf = m.regions, m.lo, m.uf
			res = internMem(x)
		}
	case MMerge:
		a := stripRegions(m.a, dead, minID, memo)
		b := stripRegions(m.b, dead, minID, memo)
		if a == m.a && b == m.b {
			res = m
		} else {
			res = MergeMem(m.cond, a, b)
		}
	default:
		res = m
	}
	memo[m] = res
	return res
}

// litLookup resolves reads from string-literal regions (set by the engine).
var litLookup func(keys []*Term) (*Term, bool)

// leOff / ltOff: unsigned comparison of two memory indices with one extra
// syntactic rule: x+c1 <= x+c2 folds on the constants when both are small and
// non-negative (indices are slice offsets below 2^48, so no wrap-around).
func offConsts(a, b *Term) (ca, cb int64, ok bool) {
	ba, xa := splitOff(a)
	bb, xb := splitOff(b)
	if ba != bb || ba.IsConst() {
		return 0, 0, false
	}
	get := func(x *Term) (int64, bool) {
		if x == nil {
			return 0, true
		}
		if x.val.BitLen() > 40 {
			return 0, false
		}
		return x.val.Int64(), true
	}
	ca, ok1 := get(xa)
	cb, ok2 := get(xb)
	return ca, cb, ok1 && ok2
}

func leOff(a, b *Term) *Term {
	if ca, cb, ok := offConsts(a, b); ok {
		return BoolConst(ca <= cb)
	}
	return BVUle(a, b)
}

func ltOff(a, b *Term) *Term {
	if ca, cb, ok := offConsts(a, b); ok {
		return BoolConst(ca < cb)
	}
	return BVUlt(a, b)
}

// regionNotAfter: for region-valued variables, the allocation counter when the
// value was obtained; the value cannot be a region allocated after that.
var regionNotAfter = map[int]uint64{}

// regionExtern: results of abstracted value-parameter functions (pureExternResults): not a region
// the verified code allocated before the call, unless one of the argument regions.
type externRegionInfo struct {
	seq0 uint64
	args []*Term
}

var regionExtern = map[int]externRegionInfo{}

func externCannotBe(v, c *Term) bool {
	if v.op != "var" || c.op != "const" || c.val.Uint64()>>60 != 0xF {
		return false
	}
	info, ok := regionExtern[v.id]
	if !ok {
		return false
	}
	id := c.val.Uint64() & 0x0FFFFFFFFFFFFFFF
	if id > info.seq0 || id <= callAllocBase {
		return false
	}
	for _, a := range info.args {
		if a == v {
			continue
		}
		if EqOff(a, c) != False {
			return false
		}
	}
	return true
}

func notAfter(v, c *Term) bool {
	if c.op != "const" || c.val.Uint64()>>60 != 0xF {
		return false
	}
	id := c.val.Uint64() & 0x0FFFFFFFFFFFFFFF
	switch v.op {
	case "var":
		lim, ok := regionNotAfter[v.id]
		return ok && id > lim
	case "ite":
		return notAfter(v.args[1], c) && notAfter(v.args[2], c)
	}
	return false
}

// effectiveMem skips the newest nodes of a chain that cannot concern region r,
// so that memory states differing only in unrelated (e.g. freshly allocated)
// regions get the same version identity for reads of r.
var effMemo = map[[2]int]*Mem{}

func effectiveMem(m *Mem, r *Term) *Mem {
	if m == nil {
		return nil
	}
	key := [2]int{m.id, r.id}
	if x, ok := effMemo[key]; ok {
		return x
	}
	x := effectiveMem1(m, r)
	effMemo[key] = x
	return x
}

func effectiveMem1(m *Mem, r *Term) *Mem {
	for m != nil {
		var nr *Term
		switch m.kind {
		case MWrite:
			if len(m.keys) == 2 {
				nr = m.keys[0]
			}
		case MCopy, MFill, MHavoc:
			nr = m.region
		case MHavocFresh:
			if regionMask(r)&(1<<15) == 0 || (isPreRegion(r) && havocFreshIsCallOnly(m)) {
				m = m.prev
				continue
			}
		case MMerge:
			// branches that differ only in regions unrelated to r
			if ea, eb := effectiveMem(m.a, r), effectiveMem(m.b, r); ea == eb && ea != nil {
				m = ea
				continue
			}
		}
		if nr != nil && regionCannotBe(nr, r) {
			m = m.prev
			continue
		}
		break
	}
	return m
}

func iteDepth(t *Term) int {
	if t.op != "ite" {
		return 0
	}
	a, b := iteDepth(t.args[1]), iteDepth(t.args[2])
	if b > a {
		a = b
	}
	return a + 1
}

// regionCannotBe: a node writing region nr cannot concern reads of region r. The nil region
// (0) holds no cells, so a write "to" it is empty.
func regionCannotBe(nr, r *Term) bool {
	if nr.IsConst() && nr.val.Sign() == 0 {
		return true
	}
	if nr.op == "ite" && iteDepth(nr) <= 3 {
		return regionCannotBe(nr.args[1], r) && regionCannotBe(nr.args[2], r)
	}
	// nil (no cells) or allocated during the call: never a region of the pre-state
	if callAllocOrNil(nr) && isPreRegion(r) {
		return true
	}
	return EqOff(nr, r) == False
}

// effectiveMemPre: the version of a memory as far as pre-existing (pre-state) regions are
// concerned: nodes that write only freshly allocated regions (or nil) are skipped.
var effPreMemo = map[int]*Mem{}

func effectiveMemPre(m *Mem) *Mem {
	if m == nil {
		return nil
	}
	if x, ok := effPreMemo[m.id]; ok {
		return x
	}
	x := effectiveMemPre1(m)
	effPreMemo[m.id] = x
	return x
}

func effectiveMemPre1(m *Mem) *Mem {
	for m != nil {
		var nr *Term
		switch m.kind {
		case MWrite:
			if len(m.keys) == 2 {
				nr = m.keys[0]
			}
		case MCopy, MFill, MHavoc:
			nr = m.region
		case MHavocFresh:
			m = m.prev
			continue
		case MMerge:
			if ea, eb := effectiveMemPre(m.a), effectiveMemPre(m.b); ea == eb && ea != nil {
				m = ea
				continue
			}
		}
		if nr != nil && freshOrNil(nr) {
			m = m.prev
			continue
		}
		break
	}
	return m
}

func freshOrNil(r *Term) bool {
	if r.IsConst() && r.val.Sign() == 0 {
		return true
	}
	if r.op == "ite" && iteDepth(r) <= 3 {
		return freshOrNil(r.args[1]) && freshOrNil(r.args[2])
	}
	return regionMask(r)&^(1<<15) == 0
}

// havocFreshIsCallOnly: the node havocs only regions allocated during the verified call.
func havocFreshIsCallOnly(m *Mem) bool {
	return m.lo != nil && m.lo.IsConst() && m.lo.val.Uint64()&0x0FFFFFFFFFFFFFFF >= callAllocBase
}

// callAllocOrNil: the region term is syntactically nil or an allocation of the verified call.
func callAllocOrNil(t *Term) bool {
	switch t.op {
	case "const":
		return t.val.Sign() == 0 || isCallAlloc(t)
	case "ite":
		return callAllocOrNil(t.args[1]) && callAllocOrNil(t.args[2])
	case "var":
		return callAllocVars[t.id]
	}
	return false
}

// callAllocVars: region variables assumed (and checked inductively) to be nil or call-allocated.
var callAllocVars = map[int]bool{}


// restrictTerms simplifies small terms under the assumption that c has the given truth value:
// every ite(c, x, y) inside them becomes x (or y). Large terms are left alone.
func restrictTerms(ts []*Term, c *Term, val bool) []*Term {
	out := ts
	for i, t := range ts {
		r := restrictTerm(t, c, val)
		if r != t {
			if &out[0] == &ts[0] {
				out = append([]*Term(nil), ts...)
			}
			out[i] = r
		}
	}
	return out
}

func restrictTerm(t *Term, c *Term, val bool) *Term {
	budget := 200
	memo := map[int]*Term{}
	var rec func(t *Term, depth int) *Term
	rec = func(t *Term, depth int) *Term {
		if r, ok := memo[t.id]; ok {
			return r
		}
		if budget <= 0 || depth > 12 || len(t.args) == 0 {
			return t
		}
		budget--
		var r *Term
		if t.op == "ite" && len(t.args) == 3 && t.args[0] == c {
			if val {
				r = rec(t.args[1], depth+1)
			} else {
				r = rec(t.args[2], depth+1)
			}
		} else if t.op == "uf" || t.op == "select" {
			r = t // memory reads: leave their insides alone
		} else {
			changed := false
			na := make([]*Term, len(t.args))
			for i, a := range t.args {
				na[i] = rec(a, depth+1)
				if na[i] != a {
					changed = true
				}
			}
			if changed {
				r = rebuild(t, na)
			} else {
				r = t
			}
		}
		memo[t.id] = r
		return r
	}
	return rec(t, 0)
}
