package main

// Symbolic execution of go/ssa (NaiveForm) functions into verification
// conditions. Forward execution over the loop-cut CFG with ite-merging at joins.

import (
	"fmt"
	"os"
	"go/constant"
	"go/token"
	"go/types"
	"math/big"
	"sort"
	"strings"

	"golang.org/x/tools/go/ssa"
)

type deferred struct {
	call *ssa.CallCommon
	args []Value
	fn   Value
	site ssa.Instruction
	frame int
}

// PC is a persistent list of path facts; joins factor out the common prefix.
type PC struct {
	parent *PC
	fact   *Term
	depth  int
	cache  *Term
	branch bool // the fact is a branch decision (not an assumption)
}

// pcHas: c is literally one of the (most recent) path facts.
func pcHas(p *PC, c *Term) bool {
	n := 0
	for x := p; x != nil && n < 20000; x = x.parent {
		if x.fact == c {
			return true
		}
		if x.fact.op == "and" {
			for _, a := range x.fact.args {
				if a == c {
					return true
				}
			}
		}
		n++
	}
	return false
}

// pcBranchDelta: conjunction of the branch decisions between p and its ancestor anc.
func pcBranchDelta(p, anc *PC) *Term {
	var fs []*Term
	for x := p; x != nil && x != anc; x = x.parent {
		if anc != nil && x.depth <= anc.depth {
			break
		}
		if x.branch {
			fs = append(fs, x.fact)
		}
	}
	return And(fs...)
}

// pcImplies: c (or each conjunct of c) is literally among the path facts.
func pcImplies(p *PC, c *Term) bool {
	if c == True {
		return true
	}
	if c.op == "and" {
		for _, a := range c.args {
			if !pcHas(p, a) {
				return false
			}
		}
		return true
	}
	return pcHas(p, c)
}

// underPC resolves ite nodes whose condition is decided by the path facts.
func underPC(p *PC, t *Term) *Term {
	return underPCd(p, t, 0)
}

func underPCd(p *PC, t *Term, depth int) *Term {
	for t.op == "ite" {
		if pcImplies(p, t.args[0]) {
			t = t.args[1]
		} else if pcImplies(p, Not(t.args[0])) {
			t = t.args[2]
		} else {
			break
		}
	}
	if t.op == "ite" && depth < 6 {
		a := underPCd(p, t.args[1], depth+1)
		b := underPCd(p, t.args[2], depth+1)
		if a != t.args[1] || b != t.args[2] {
			return Ite(t.args[0], a, b)
		}
	}
	return t
}

// pcBranchFree: no branch decision lies between p and its ancestor anc.
func pcBranchFree(p, anc *PC) bool {
	for x := p; x != nil && x != anc; x = x.parent {
		if x.branch {
			return false
		}
		if anc != nil && x.depth < anc.depth {
			return false
		}
	}
	return true
}

func (p *PC) add(c *Term) *PC {
	d := 1
	if p != nil {
		d = p.depth + 1
	}
	return &PC{parent: p, fact: c, depth: d}
}

func (p *PC) term() *Term {
	if p == nil {
		return True
	}
	if p.cache != nil {
		return p.cache
	}
	var fs []*Term
	for x := p; x != nil; x = x.parent {
		if x.cache != nil {
			fs = append(fs, x.cache)
			break
		}
		fs = append(fs, x.fact)
	}
	p.cache = And(fs...)
	return p.cache
}

func pcLCA(a, b *PC) *PC {
	da, db := 0, 0
	if a != nil {
		da = a.depth
	}
	if b != nil {
		db = b.depth
	}
	for da > db {
		a = a.parent
		da--
	}
	for db > da {
		b = b.parent
		db--
	}
	for a != b {
		a, b = a.parent, b.parent
	}
	return a
}

func pcDelta(p, anc *PC) *Term {
	var fs []*Term
	for x := p; x != anc; x = x.parent {
		fs = append(fs, x.fact)
	}
	return And(fs...)
}

type State struct {
	pc     *PC
	dead   bool
	cells  map[cellKey][]*Term
	clos   map[cellKey]*Closure
	caddr  map[cellKey]*Addr // cells holding non-storable pointers
	mems   map[string]*Mem
	defers []deferred
	ghost  map[string]*Term // ghost counters (allocs, ...)
}

func (s *State) clone() *State {
	n := &State{pc: s.pc, dead: s.dead, cells: make(map[cellKey][]*Term, len(s.cells)), mems: make(map[string]*Mem, len(s.mems)),
		clos: map[cellKey]*Closure{}, caddr: map[cellKey]*Addr{}, ghost: map[string]*Term{}}
	for k, v := range s.cells {
		n.cells[k] = v
	}
	for k, v := range s.clos {
		n.clos[k] = v
	}
	for k, v := range s.caddr {
		n.caddr[k] = v
	}
	for k, v := range s.mems {
		n.mems[k] = v
	}
	for k, v := range s.ghost {
		n.ghost[k] = v
	}
	n.defers = append([]deferred(nil), s.defers...)
	return n
}

func (s *State) assume(c *Term) {
	if c == True {
		return
	}
	if c == False {
		s.dead = true
	}
	s.pc = s.pc.add(c)
}

func (s *State) kill() { s.dead = true }

func (s *State) assumeBranch(c *Term) {
	s.assume(c)
	if s.pc != nil && s.pc.fact == c {
		s.pc.branch = true
	}
}

type Obligation struct {
	Name  string
	Kind  string
	Fn    string // function containing the site
	Pos   token.Position
	hyp   *Term
	goal  *Term
	Props []string
	Desc  string
}

type Frame struct {
	id       int
	fn       *ssa.Function
	regs     map[ssa.Value]Value
	freevars []Value
	depth    int
	prefix   string // obligation name prefix (call chain)
	counts   map[string]int
	spec     bool // executing ghost/spec code
	quiet    bool // do not emit obligations (contract application / discovery)
	loops    map[*ssa.BasicBlock]*loopInfo
	heads    map[*loopInfo]*loopHead
	hctx     *harnessCtx
	localRegions []uint64
	firstMemID int
	iters    map[*ssa.Range]*iterInfo
	inlineContracts bool
}

type retPoint struct {
	st   *State
	vals []Value
}

type Engine struct {
	wireEach    *Closure // predicate every sent frame must satisfy (vWireEach of the harness under verification)
	inWireEach  bool
	borrowed    []*Term // regions lent to the code under verification (vBorrowed): must not be stored in retained memory
	qctx        []*Term // bound variables of the quantifier bodies being evaluated (outermost first)
	oblBase     string // when set, obligations are named after this instead of the call chain
	branchCache map[string]bool
	mapQuantCache map[string]*Term
	strKeysUsed bool // a string-keyed map was accessed: string equality is tied to the key identity
	prog      *ssa.Program
	pkgs      map[string]*ssa.Package
	obls      []*Obligation
	frameSeq  int
	allocSeq  uint64
	literals  map[string]uint64 // string content -> region id
	litByID   map[uint64]string
	curTop    string // name of the top-level harness being verified
	hole      *ssa.Function
	holeUsed  bool
	contracts map[*ssa.Function]*ssa.Function // target -> harness
	invs      map[string]*ssa.Function        // "Func#k" -> invariant function
	decs      map[string]*ssa.Function
	stack     []*ssa.Function
	warnings  []string
	assumedExterns map[string]bool
	inlined   map[string]bool
	usedContracts map[string]bool
	fieldIDs  map[string]uint64
	loopWhere *loopEvalWhere
	globalsRO map[*ssa.Global][]*Term // immutable globals with init-time values
	unfoldFuel int
	specUF    map[string]bool
	pendingAxioms []*Term
	axiomSeen map[string]bool
	typeTags  map[string]uint64
	ifaceVals map[int]ifaceVal // handle term id -> concrete value
	noObl     int
	maxDepth  int
	props     []string
	quantVars map[string]*quantInfo
	inlineFastlog bool
	strLitIDs map[string]uint64
	unrolls map[string]*ssa.Function
	topPkg string
	strProv map[uint64]strProv
	initFacts *initFacts
	frames map[string]*ssa.Function
	unfoldCache map[string]*Term
	loopEval *loopEvalCtx
	reveal bool
	usedLemmas map[string]bool
	strict bool
	heapHavocs int
	forceOrdinal int
	oblNames map[string]bool
	trueInv *ssa.Function
	loopSeq int
	noFrameDiscovery bool
	lenient bool
	initPkg *ssa.Package
	oblCounts map[string]int
	unfolding map[*ssa.Function]int
}

type strProv struct {
	mem       int
	r, o, n   *Term
}

type ifaceVal struct {
	typ types.Type
	val Value
}

func NewEngine(prog *ssa.Program) *Engine {
	return &Engine{prog: prog, pkgs: map[string]*ssa.Package{}, literals: map[string]uint64{}, litByID: map[uint64]string{},
		contracts: map[*ssa.Function]*ssa.Function{}, invs: map[string]*ssa.Function{}, decs: map[string]*ssa.Function{},
		assumedExterns: map[string]bool{}, inlined: map[string]bool{}, usedContracts: map[string]bool{}, fieldIDs: map[string]uint64{},
		globalsRO: map[*ssa.Global][]*Term{}, unfoldFuel: 1, specUF: map[string]bool{}, axiomSeen: map[string]bool{},
		strLitIDs: map[string]uint64{}, strProv: map[uint64]strProv{}, unfoldCache: map[string]*Term{}, usedLemmas: map[string]bool{}, oblNames: map[string]bool{}, oblCounts: map[string]int{}, unfolding: map[*ssa.Function]int{}, unrolls: map[string]*ssa.Function{}, typeTags: map[string]uint64{}, ifaceVals: map[int]ifaceVal{}, maxDepth: 12, quantVars: map[string]*quantInfo{}}
}

func (e *Engine) warn(format string, a ...interface{}) {
	w := fmt.Sprintf(format, a...)
	for _, x := range e.warnings {
		if x == w {
			return
		}
	}
	e.warnings = append(e.warnings, w)
}

// ---------- memory naming ----------

func elemMemName(elem types.Type, leaf Leaf) string {
	u := elem.Underlying()
	if b, ok := u.(*types.Basic); ok {
		u = types.Typ[b.Kind()]
	}
	return "elem:" + typeKey(u) + "/" + leaf.path
}
func objMemName(root types.Type, leaf Leaf) string {
	return "obj:" + typeKey(root) + "/" + leaf.path
}
func globalMemName(g *ssa.Global, leaf Leaf) string {
	return "global:" + g.Pkg.Pkg.Path() + "." + g.Name() + "/" + leaf.path
}

var byteMemName = "elem:uint8/"
var debugChain = os.Getenv("GOVC_DEBUG_CHAIN") != ""
var debugChainDone bool

// fieldLens: length of the array behind each embedded-array region class.
var fieldLens = map[uint64]int64{}

func (e *Engine) mem(st *State, name string, ksort []Sort, sort Sort) *Mem {
	if m, ok := st.mems[name]; ok {
		return m
	}
	m := NewBaseMem(name, ksort, sort, "M0."+name)
	st.mems[name] = m
	return m
}

var elemKS = []Sort{RegionSort, IntSort}
var objKS = []Sort{RefSort}

// readLeaf reads one leaf from memory, adding well-formedness facts for
// values coming from pre-existing memory.
func (e *Engine) memRead(st *State, name string, ksort []Sort, l Leaf, keys []*Term) *Term {
	m := e.mem(st, name, ksort, l.sort)
	if debugChain && len(keys) == 2 && keys[0].op == "var" && strings.HasPrefix(keys[0].name, "wire.r") && !debugChainDone {
		debugChainDone = true
		n := 0
		for x := m; x != nil; x = x.prev {
			desc := ""
			switch x.kind {
			case MWrite:
				desc = "write " + x.keys[0].String()
			case MCopy:
				desc = "copy " + x.region.String()
			case MFill:
				desc = "fill " + x.region.String()
			case MHavoc:
				desc = "havoc " + x.region.String()
			case MMerge:
				desc = "merge"
			case MHavocFresh:
				desc = "havocfresh"
			case MBase:
				desc = "base " + x.uf
			}
			if len(desc) > 90 {
				desc = desc[:90]
			}
			fmt.Println("CHAIN", n, desc)
			n++
		}
	}
	// keys that are conditional values (ite) are resolved against the path facts first
	for i, k := range keys {
		if k.op == "ite" {
			if debugChain && k.args[2].op == "ite" {
				c2 := k.args[2].args[0]
				fmt.Println("UNDERPC inner cond", c2.String(), "has", pcHas(st.pc, c2), "depth", st.pc.depth)
				n := 0
				for x := st.pc; x != nil && n < 12; x = x.parent {
					s := x.fact.String()
					if len(s) > 100 {
						s = s[:100]
					}
					fmt.Println("   PC", x.branch, s)
					n++
				}
				debugChain = false
			}
			if nk := underPC(st.pc, k); nk != k {
				nkeys := append([]*Term(nil), keys...)
				nkeys[i] = nk
				keys = nkeys
			}
		}
	}
	if len(keys) == 2 && l.sort == 8 {
		if v, ok := e.litRead(keys); ok {
			return v
		}
	}
	return m.Read(keys)
}

// litRead handles reads from string-literal regions, which no write can reach.
func (e *Engine) litRead(keys []*Term) (*Term, bool) {
	r := keys[0]
	if r.IsConst() {
		id := r.val.Uint64()
		if id>>60 == 0xD {
			if s, ok := e.litByID[id]; ok {
				if keys[1].IsConst() {
					i := keys[1].val.Uint64()
					if i < uint64(len(s)) {
						return BVConst(int64(s[i]), 8), true
					}
				}
			}
			return UF("litbyte", 8, keys...), true
		}
		return nil, false
	}
	if r.op == "ite" {
		a, ok1 := e.litRead([]*Term{r.args[1], keys[1]})
		b, ok2 := e.litRead([]*Term{r.args[2], keys[1]})
		if ok1 && ok2 {
			return Ite(r.args[0], a, b), true
		}
	}
	return nil, false
}

func (e *Engine) literal(s string) []*Term {
	id, ok := e.literals[s]
	if !ok {
		id = 0xD000000000000000 + uint64(len(e.literals)+1)
		e.literals[s] = id
		e.litByID[id] = s
	}
	if len(s) == 0 {
		return []*Term{BVConst(0, 64), BVConst(0, IntSort), BVConst(0, IntSort)}
	}
	return []*Term{BVConstU(id, RegionSort), BVConst(0, IntSort), BVConst(int64(len(s)), IntSort)}
}

func (e *Engine) freshRegion() *Term {
	e.allocSeq++
	return BVConstU(0xF000000000000000+e.allocSeq, RegionSort)
}

func (e *Engine) freshRef() *Term {
	e.allocSeq++
	return BVConstU(0x80000000+e.allocSeq, RefSort)
}

func (e *Engine) fieldRegion(root types.Type, path string, ref *Term, n int64) *Term {
	k := typeKey(root) + "/" + path
	id, ok := e.fieldIDs[k]
	if !ok {
		id = uint64(len(e.fieldIDs) + 1)
		e.fieldIDs[k] = id
	}
	fieldLens[id] = n
	hi := BVConstU(0xE0000000+id, 32)
	return Concat(hi, ref)
}

func (e *Engine) typeTag(t types.Type) *Term {
	k := typeKey(t)
	id, ok := e.typeTags[k]
	if !ok {
		id = uint64(len(e.typeTags) + 1)
		e.typeTags[k] = id
	}
	return BVConstU(id, RefSort)
}

// ---------- obligations ----------

func (e *Engine) oblige(fr *Frame, st *State, kind string, instr ssa.Instruction, goal *Term, desc string) {
	// after the check the execution continues only where the goal held
	// (proved quantified facts are not carried along: they would have to be
	// instantiated in every later query)
	defer func() {
		if len(e.quantVars) > 0 && e.mentionsQuant(goal) {
			return
		}
		st.assume(goal)
	}()
	if fr.quiet {
		return
	}
	if goal == True {
		e.noObl++
		return
	}
	k := kind
	if fr.spec {
		k = "spec-" + kind
	}
	base := fmt.Sprintf("%s%s#%s", fr.prefix, fnName(fr.fn), k)
	if e.oblBase != "" {
		base = e.oblBase + "#" + k
	}
	e.oblCounts[base]++
	name := fmt.Sprintf("%s@%d", base, e.oblCounts[base])
	if e.forceOrdinal > 0 {
		name = fmt.Sprintf("%s@%d", base, e.forceOrdinal)
		if e.oblNames[name] {
			name = fmt.Sprintf("%s@%d.%d", base, e.forceOrdinal, e.oblCounts[base])
		}
	}
	e.oblNames[name] = true
	var pos token.Position
	if instr != nil {
		pos = e.prog.Fset.Position(instr.Pos())
		if !pos.IsValid() {
			// search backwards for a position
			if b := instr.Block(); b != nil {
				for _, in := range b.Instrs {
					if p := e.prog.Fset.Position(in.Pos()); p.IsValid() {
						pos = p
					}
					if in == instr {
						break
					}
				}
			}
		}
	}
	e.obls = append(e.obls, &Obligation{Name: name, Kind: k, Fn: fnName(fr.fn), Pos: pos, hyp: st.pc.term(), goal: goal, Desc: desc, Props: e.props})
}

func (e *Engine) mentionsQuant(t *Term) bool {
	found := false
	Walk(t, map[int]bool{}, func(x *Term) {
		if x.op == "var" || x.op == "uf" {
			if _, ok := e.quantVars[x.name]; ok {
				found = true
			}
		}
	})
	return found
}

func fnName(fn *ssa.Function) string {
	if fn == nil {
		return "?"
	}
	n := fn.Name()
	if recv := fn.Signature.Recv(); recv != nil {
		t := recv.Type()
		if p, ok := t.(*types.Pointer); ok {
			t = p.Elem()
		}
		if nt, ok := t.(*types.Named); ok {
			n = nt.Obj().Name() + "." + n
		}
	}
	if fn.Pkg != nil && fn.Pkg.Pkg.Name() != "packet" {
		n = fn.Pkg.Pkg.Name() + "." + n
	}
	if fn.Parent() != nil {
		n = fnName(fn.Parent()) + "$" + fn.Name()
	}
	return n
}

// ---------- values ----------

func (e *Engine) constValue(c *ssa.Const) Value {
	t := c.Type()
	if c.Value == nil {
		// nil / zero value
		if _, ok := t.Underlying().(*types.Pointer); ok {
			return e.ptrFromTerms(zeroTerms(t), t)
		}
		return Value{T: zeroTerms(t)}
	}
	switch u := t.Underlying().(type) {
	case *types.Basic:
		switch {
		case u.Info()&types.IsBoolean != 0:
			return scalar(BoolConst(constant.BoolVal(c.Value)))
		case u.Info()&types.IsString != 0:
			return Value{T: e.literal(constant.StringVal(c.Value))}
		case u.Info()&types.IsInteger != 0:
			v, ok := new(big.Int).SetString(c.Value.ExactString(), 10)
			if !ok {
				unsup("int const %s", c.Value)
			}
			return scalar(BVConstBig(v, basicSort(u)))
		case u.Info()&types.IsFloat != 0:
			return scalar(FreshVar("float", basicSort(u)))
		}
	}
	unsup("const %s of type %s", c, t)
	return Value{}
}

func (e *Engine) val(fr *Frame, v ssa.Value) Value {
	switch x := v.(type) {
	case *ssa.Const:
		return e.constValue(x)
	case *ssa.Global:
		return Value{A: &Addr{kind: AGlobal, global: x, typ: x.Type().(*types.Pointer).Elem()}}
	case *ssa.Function:
		return Value{C: &Closure{fn: x}, T: []*Term{BVConst(1, RefSort)}}
	case *ssa.FreeVar:
		for i, fv := range fr.fn.FreeVars {
			if fv == x {
				return fr.freevars[i]
			}
		}
		panic("freevar not found")
	case *ssa.Builtin:
		unsup("builtin %s used as value", x.Name())
	}
	if r, ok := fr.regs[v]; ok {
		return r
	}
	panic(fmt.Sprintf("no value for %s (%T) in %s", v.Name(), v, fr.fn))
}

// ptrFromTerms turns the stored form of a pointer into an address.
func (e *Engine) ptrFromTerms(ts []*Term, t types.Type) Value {
	pt := t.Underlying().(*types.Pointer)
	if arr, ok := isArrayPtr(t); ok {
		return Value{T: ts, A: &Addr{kind: AArr, typ: pt.Elem(), elem: arr.Elem(), region: ts[0], idx: ts[1], n: arr.Len()}}
	}
	return Value{T: ts, A: &Addr{kind: AHeap, typ: pt.Elem(), root: pt.Elem(), ref: ts[0]}}
}

// storable returns the flat form of a value of type t.
func (e *Engine) flat(v Value, t types.Type) []*Term {
	if _, ok := t.Underlying().(*types.Pointer); ok {
		if v.T != nil {
			return v.T
		}
		a := v.A
		switch {
		case a.kind == AArr:
			return []*Term{a.region, a.idx}
		case a.kind == AHeap && a.off == 0 && types.Identical(a.root, a.typ):
			return []*Term{a.ref}
		}
		unsup("interior pointer of kind %d to %s escapes into a value", a.kind, a.typ)
	}
	if v.T == nil {
		if v.C != nil {
			return []*Term{BVConst(1, RefSort)}
		}
		panic("flat: no terms for " + t.String())
	}
	return v.T
}

func (e *Engine) unflat(ts []*Term, t types.Type) Value {
	if _, ok := t.Underlying().(*types.Pointer); ok {
		return e.ptrFromTerms(ts, t)
	}
	return Value{T: ts}
}

// ---------- loads and stores ----------

func (e *Engine) nilCheck(fr *Frame, st *State, a *Addr, instr ssa.Instruction) {
	switch a.kind {
	case AHeap:
		e.oblige(fr, st, "nilderef", instr, Neq(a.ref, BVConst(0, RefSort)), "nil pointer dereference")
	case AArr:
		e.oblige(fr, st, "nilderef", instr, Neq(a.region, BVConst(0, RegionSort)), "nil array pointer dereference")
	}
}

func (e *Engine) load(fr *Frame, st *State, a *Addr, instr ssa.Instruction) Value {
	t := a.typ
	switch a.kind {
	case ALocal:
		if c, ok := st.clos[a.cell]; ok && a.off == 0 {
			return Value{C: c, T: []*Term{BVConst(1, RefSort)}}
		}
		if ad, ok := st.caddr[a.cell]; ok && a.off == 0 {
			return Value{A: ad}
		}
		cell, ok := st.cells[a.cell]
		if !ok {
			panic("load from unknown cell " + a.cell.alloc.Name() + " in " + fr.fn.Name())
		}
		n := nLeaves(t)
		return e.unflat(cell[a.off:a.off+n], t)
	case AHeap:
		e.nilCheck(fr, st, a, instr)
		ls := leavesOf(a.root)
		n := nLeaves(t)
		out := make([]*Term, n)
		for i := 0; i < n; i++ {
			l := ls[a.off+i]
			out[i] = e.memRead(st, objMemName(a.root, l), objKS, l, []*Term{a.ref})
		}
		e.assumeWF(st, out, t)
		return e.unflat(out, t)
	case AGlobal:
		if e.lenient && a.global.Name() == "init$guard" {
			return scalar(False)
		}
		if ro, ok := e.globalsRO[a.global]; ok {
			n := nLeaves(t)
			return e.unflat(ro[a.off:a.off+n], t)
		}
		root := a.global.Type().(*types.Pointer).Elem()
		ls := leavesOf(root)
		n := nLeaves(t)
		out := make([]*Term, n)
		for i := 0; i < n; i++ {
			l := ls[a.off+i]
			out[i] = e.memRead(st, globalMemName(a.global, l), nil, l, nil)
		}
		e.assumeWF(st, out, t)
		e.assumeGlobalFacts(st, a.global, out)
		return e.unflat(out, t)
	case AElem:
		ls := leavesOf(a.elem)
		n := nLeaves(t)
		out := make([]*Term, n)
		for i := 0; i < n; i++ {
			l := ls[a.off+i]
			out[i] = e.memRead(st, elemMemName(a.elem, l), elemKS, l, []*Term{a.region, a.idx})
		}
		e.assumeWF(st, out, t)
		return e.unflat(out, t)
	case AArr:
		e.nilCheck(fr, st, a, instr)
		// load a whole array value
		arr := t.Underlying().(*types.Array)
		if arr.Len() > maxValueArray {
			unsup("load of large array value %s", t)
		}
		ls := leavesOf(a.elem)
		var out []*Term
		for k := int64(0); k < arr.Len(); k++ {
			for _, l := range ls {
				out = append(out, e.memRead(st, elemMemName(a.elem, l), elemKS, l, []*Term{a.region, BVAdd(a.idx, BVConst(k, IntSort))}))
			}
		}
		return Value{T: out}
	}
	panic("load: bad addr kind")
}

// assumeWF adds type-based facts for values read from memory. Values written
// during the call satisfy them too (they are facts about every Go value).
func (e *Engine) assumeWF(st *State, ts []*Term, t types.Type) {
	allConst := true
	for _, x := range ts {
		if !x.IsConst() {
			allConst = false
		}
	}
	if allConst {
		return
	}
	st.assume(wfAssumptions(ts, t, true))
	e.assumeNotFuture(st, ts, t)
}

// assumeNotFuture: a region value obtained now cannot name an allocation that
// has not happened yet (values from the pre-state: not one made during the call).
func (e *Engine) assumeNotFuture(st *State, ts []*Term, t types.Type) {
	for i, l := range leavesOf(t) {
		if (l.kind == LRef || l.kind == LMap || l.kind == LChan) && !ts[i].IsConst() && ts[i].sort == RefSort {
			// the same for objects, maps and channels: a reference obtained now does not name
			// an object created later (one read from the pre-state heap: not one created during the call)
			lim := e.allocSeq
			if ts[i].op == "uf" && strings.HasPrefix(ts[i].name, "M0.") {
				lim = callAllocBase
			}
			st.assume(BVUle(ts[i], BVConstU(0x80000000+lim, RefSort)))
			continue
		}
		if l.kind != LRegion || ts[i].IsConst() {
			continue
		}
		lim := e.allocSeq
		if ts[i].op == "uf" && strings.HasPrefix(ts[i].name, "M0.") {
			lim = callAllocBase
		}
		if ts[i].op == "var" {
			regionNotAfter[ts[i].id] = lim
		}
		st.assume(BVUle(ts[i], BVConstU(0xF000000000000000+lim, RegionSort)))
	}
}

func (e *Engine) store(fr *Frame, st *State, a *Addr, v Value, instr ssa.Instruction) {
	t := a.typ
	switch a.kind {
	case ALocal:
		if _, isFn := t.Underlying().(*types.Signature); isFn && v.C != nil {
			st.clos[a.cell] = v.C
			return
		}
		delete(st.clos, a.cell)
		if _, isPtr := t.Underlying().(*types.Pointer); isPtr && v.T == nil && a.off == 0 {
			if va := v.A; !(va.kind == AArr || (va.kind == AHeap && va.off == 0 && types.Identical(va.root, va.typ))) {
				st.caddr[a.cell] = va
				return
			}
		}
		delete(st.caddr, a.cell)
		ts := e.flat(v, t)
		cell := st.cells[a.cell]
		nc := make([]*Term, len(cell))
		copy(nc, cell)
		copy(nc[a.off:], ts)
		st.cells[a.cell] = nc
	case AHeap:
		e.nilCheck(fr, st, a, instr)
		ts := e.flat(v, t)
		e.borrowCheck(fr, st, ts, t, instr, "a heap object")
		ls := leavesOf(a.root)
		for i, x := range ts {
			l := ls[a.off+i]
			name := objMemName(a.root, l)
			st.mems[name] = e.mem(st, name, objKS, l.sort).Write([]*Term{a.ref}, x)
		}
	case AGlobal:
		ts := e.flat(v, t)
		e.borrowCheck(fr, st, ts, t, instr, "a package-level variable")
		root := a.global.Type().(*types.Pointer).Elem()
		ls := leavesOf(root)
		for i, x := range ts {
			l := ls[a.off+i]
			name := globalMemName(a.global, l)
			st.mems[name] = e.mem(st, name, nil, l.sort).Write(nil, x)
		}
	case AElem:
		ts := e.flat(v, t)
		if !(a.region.IsConst() && fr.isLocalRegion(a.region.val.Uint64())) {
			e.borrowCheck(fr, st, ts, t, instr, "a slice element")
		}
		ls := leavesOf(a.elem)
		for i, x := range ts {
			l := ls[a.off+i]
			name := elemMemName(a.elem, l)
			st.mems[name] = e.mem(st, name, elemKS, l.sort).Write([]*Term{a.region, a.idx}, x)
		}
	case AArr:
		e.nilCheck(fr, st, a, instr)
		arr := t.Underlying().(*types.Array)
		ts := e.flat(v, t)
		ls := leavesOf(a.elem)
		if int64(len(ts)) != arr.Len()*int64(len(ls)) {
			panic("array store shape mismatch")
		}
		k := 0
		for i := int64(0); i < arr.Len(); i++ {
			for _, l := range ls {
				name := elemMemName(a.elem, l)
				st.mems[name] = e.mem(st, name, elemKS, l.sort).Write([]*Term{a.region, BVAdd(a.idx, BVConst(i, IntSort))}, ts[k])
				k++
			}
		}
	}
}

// ---------- allocation ----------

func (e *Engine) allocObject(st *State, t types.Type) *Addr {
	if arr, ok := t.Underlying().(*types.Array); ok {
		r := e.freshRegion()
		for _, l := range leavesOf(arr.Elem()) {
			name := elemMemName(arr.Elem(), l)
			z := BVConst(0, l.sort)
			if l.sort == BoolSort {
				z = False
			}
			st.mems[name] = e.mem(st, name, elemKS, l.sort).Fill(r, z)
		}
		e.bumpAllocs(st)
		return &Addr{kind: AArr, typ: t, elem: arr.Elem(), region: r, idx: BVConst(0, IntSort), n: arr.Len()}
	}
	ref := e.freshRef()
	ls := leavesOf(t)
	zs := zeroTerms(t)
	for i, l := range ls {
		name := objMemName(t, l)
		st.mems[name] = e.mem(st, name, objKS, l.sort).Write([]*Term{ref}, zs[i])
	}
	e.bumpAllocs(st)
	return &Addr{kind: AHeap, typ: t, root: t, ref: ref}
}

func (e *Engine) bumpAllocs(st *State) {
	if len(e.stack) > 0 {
		top := e.stack[len(e.stack)-1]
		// ghost code does not run; go/ssa's escape flag is conservative for the value-type
		// helpers of net/netip, which do not allocate (assumption, listed in the evidence)
		if isVerifFunc(top) || strings.HasPrefix(top.Name(), "VerifSpec") {
			return
		}
		if top.Pkg != nil && !strings.HasPrefix(top.Pkg.Pkg.Path(), "github.com/irai/packet") {
			if _, ok := st.ghost["allocs"]; ok {
				e.assumedExterns["allocation counting (vAllocs) covers repository code: inlined "+top.Pkg.Pkg.Path()+" helpers are taken to be allocation-free"] = true
			}
			return
		}
	}
	if a, ok := st.ghost["allocs"]; ok {
		if os.Getenv("GOVC_DEBUG_ALLOC") != "" && len(e.stack) > 0 {
			fmt.Fprintf(os.Stderr, "alloc in %s\n", e.stack[len(e.stack)-1])
		}
		st.ghost["allocs"] = BVAdd(a, BVConst(1, 64))
	}
}

// ---------- arithmetic ----------

func (e *Engine) binop(fr *Frame, st *State, op token.Token, x, y Value, tx, ty types.Type, instr ssa.Instruction) Value {
	ux := tx.Underlying()
	switch op {
	case token.EQL, token.NEQ:
		eq := e.equal(fr, st, x, y, tx, ty)
		if op == token.NEQ {
			eq = Not(eq)
		}
		return scalar(eq)
	}
	b, ok := ux.(*types.Basic)
	if !ok {
		unsup("binop %s on %s", op, tx)
	}
	if b.Info()&types.IsString != 0 {
		switch op {
		case token.ADD:
			return e.strConcat(st, x, y)
		case token.LSS, token.LEQ, token.GTR, token.GEQ:
			return scalar(FreshVar("strcmp", BoolSort))
		}
		unsup("string binop %s", op)
	}
	if b.Info()&types.IsFloat != 0 {
		if op == token.LSS || op == token.LEQ || op == token.GTR || op == token.GEQ {
			return scalar(FreshVar("fcmp", BoolSort))
		}
		return scalar(FreshVar("float", basicSort(b)))
	}
	if b.Info()&types.IsBoolean != 0 {
		unsup("bool binop %s", op)
	}
	a, c := x.term(), y.term()
	signed := isSigned(tx)
	switch op {
	case token.ADD:
		return scalar(BVAdd(a, c))
	case token.SUB:
		return scalar(BVSub(a, c))
	case token.MUL:
		return scalar(BVMul(a, c))
	case token.QUO, token.REM:
		e.oblige(fr, st, "div0", instr, Neq(c, BVConst(0, c.sort)), "integer divide by zero")
		if signed {
			if op == token.QUO {
				return scalar(BVSdiv(a, c))
			}
			return scalar(BVSrem(a, c))
		}
		if op == token.QUO {
			return scalar(BVUdiv(a, c))
		}
		return scalar(BVUrem(a, c))
	case token.AND:
		return scalar(BVAnd(a, c))
	case token.OR:
		return scalar(BVOr(a, c))
	case token.XOR:
		return scalar(BVXor(a, c))
	case token.AND_NOT:
		return scalar(BVAnd(a, BVNot(c)))
	case token.SHL, token.SHR:
		if isSigned(ty) {
			e.oblige(fr, st, "shift", instr, BVSle(BVConst(0, c.sort), c), "negative shift amount")
		}
		w := a.sort
		var big *Term
		var amt *Term
		if c.sort > w {
			big = BVUle(BVConst(int64(w), c.sort), c)
			amt = Extract(c, int(w)-1, 0)
		} else {
			amt = ZeroExt(c, w)
			big = BVUle(BVConst(int64(w), w), amt)
			if c.sort < w && (1<<uint(c.sort)) <= int(w) {
				big = False
			}
		}
		if op == token.SHL {
			return scalar(Ite(big, BVConst(0, w), BVShl(a, amt)))
		}
		if signed {
			return scalar(Ite(big, BVAshr(a, BVConst(int64(w)-1, w)), BVAshr(a, amt)))
		}
		return scalar(Ite(big, BVConst(0, w), BVLshr(a, amt)))
	case token.LSS:
		if signed {
			return scalar(BVSlt(a, c))
		}
		return scalar(BVUlt(a, c))
	case token.LEQ:
		if signed {
			return scalar(BVSle(a, c))
		}
		return scalar(BVUle(a, c))
	case token.GTR:
		if signed {
			return scalar(BVSlt(c, a))
		}
		return scalar(BVUlt(c, a))
	case token.GEQ:
		if signed {
			return scalar(BVSle(c, a))
		}
		return scalar(BVUle(c, a))
	}
	unsup("binop %s", op)
	return Value{}
}

func (e *Engine) equal(fr *Frame, st *State, x, y Value, tx, ty types.Type) *Term {
	switch u := tx.Underlying().(type) {
	case *types.Pointer:
		ax, ay := x.A, y.A
		if ax == nil || ay == nil {
			unsup("pointer comparison without address")
		}
		fx, okx := e.tryFlat(x, tx)
		fy, oky := e.tryFlat(y, ty)
		if okx && oky {
			cs := make([]*Term, len(fx))
			for i := range fx {
				cs[i] = Eq(fx[i], fy[i])
			}
			return And(cs...)
		}
		// interior pointers: never nil
		if okx != oky {
			if okx && isZeroTerms(fx) || oky && isZeroTerms(fy) {
				return False
			}
		}
		return FreshVar("ptreq", BoolSort)
	case *types.Basic:
		if u.Info()&types.IsString != 0 {
			eq := e.strEq(st, x.T, y.T)
			if !eq.IsConst() {
				// the key identity used for string-keyed maps is injective on string values
				st.assume(Eq(eq, Eq(e.strID(st, x.T), e.strID(st, y.T))))
			}
			return eq
		}
		if u.Info()&types.IsFloat != 0 {
			return FreshVar("feq", BoolSort)
		}
		return Eq(x.term(), y.term())
	case *types.Slice:
		// only comparison with nil is legal
		if isZeroTerms(y.T) {
			return Eq(x.T[0], BVConst(0, RegionSort))
		}
		if isZeroTerms(x.T) {
			return Eq(y.T[0], BVConst(0, RegionSort))
		}
		unsup("slice comparison")
	case *types.Interface:
		// an interface is nil iff its type tag is zero
		if isZeroTerms(y.T) {
			return Eq(x.T[0], BVConst(0, RefSort))
		}
		if isZeroTerms(x.T) {
			return Eq(y.T[0], BVConst(0, RefSort))
		}
		return And(Eq(x.T[0], y.T[0]), Eq(x.T[1], y.T[1]))
	case *types.Struct, *types.Array:
		return e.equalLeaves(st, x.T, y.T, tx)
	case *types.Map, *types.Chan, *types.Signature:
		return Eq(x.T[0], y.T[0])
	}
	unsup("comparison of %s", tx)
	return nil
}

func (e *Engine) equalLeaves(st *State, xs, ys []*Term, t types.Type) *Term {
	ls := leavesOf(t)
	var cs []*Term
	for i := 0; i < len(ls); i++ {
		l := ls[i]
		if l.kind == LRegion {
			if b, ok := l.typ.Underlying().(*types.Basic); ok && b.Info()&types.IsString != 0 {
				cs = append(cs, e.strEq(st, xs[i:i+3], ys[i:i+3]))
				i += 2
				continue
			}
		}
		cs = append(cs, Eq(xs[i], ys[i]))
	}
	return And(cs...)
}

func isZeroTerms(ts []*Term) bool {
	for _, t := range ts {
		if !(t.IsConst() && (t == False || (t.val != nil && t.val.Sign() == 0))) {
			return false
		}
	}
	return true
}

func (e *Engine) tryFlat(v Value, t types.Type) (ts []*Term, ok bool) {
	defer func() {
		if r := recover(); r != nil {
			if _, isU := r.(unsupported); isU {
				ok = false
				return
			}
			panic(r)
		}
	}()
	return e.flat(v, t), true
}

// strEq: equality of two strings given as (region, off, len).
func (e *Engine) strEq(st *State, a, b []*Term) *Term {
	if a[0] == b[0] && a[1] == b[1] && a[2] == b[2] {
		return True
	}
	// a string chosen by a condition (merged control flow): compare each alternative
	if c, x, y, ok := splitStrIte(a); ok {
		return Ite(c, e.strEq(st, x, b), e.strEq(st, y, b))
	}
	if c, x, y, ok := splitStrIte(b); ok {
		return Ite(c, e.strEq(st, a, x), e.strEq(st, a, y))
	}
	lenEq := Eq(a[2], b[2])
	if lenEq == False {
		return False
	}
	// expand byte-wise when one side has a small constant length
	var n int64 = -1
	if a[2].IsConst() {
		n = a[2].val.Int64()
	} else if b[2].IsConst() {
		n = b[2].val.Int64()
	}
	if n >= 0 && n <= 64 {
		cs := []*Term{lenEq}
		l := leavesOf(types.Typ[types.Uint8])[0]
		for i := int64(0); i < n; i++ {
			x := e.memRead(st, byteMemName, elemKS, l, []*Term{a[0], BVAdd(a[1], BVConst(i, IntSort))})
			y := e.memRead(st, byteMemName, elemKS, l, []*Term{b[0], BVAdd(b[1], BVConst(i, IntSort))})
			cs = append(cs, Eq(x, y))
		}
		return And(cs...)
	}
	m := e.mem(st, byteMemName, elemKS, 8)
	x, y := a, b
	if x[0].id > y[0].id {
		x, y = y, x
	}
	// version of the byte memory as far as the two regions are concerned
	mid := -1
	for _, rg := range []*Term{x[0], y[0]} {
		if em := effectiveMem(m, rg); em != nil && em.id > mid {
			mid = em.id
		}
	}
	if mid < 0 {
		mid = m.id
	}
	r := UF(fmt.Sprintf("streq.m%d", mid), BoolSort, x[0], x[1], x[2], y[0], y[1], y[2])
	// equal strings have equal length
	st.assume(Implies(r, lenEq))
	return r
}

func (e *Engine) strConcat(st *State, x, y Value) Value {
	r := e.freshRegion()
	n := BVAdd(x.T[2], y.T[2])
	m := e.mem(st, byteMemName, elemKS, 8)
	snap := m
	m = m.Copy(r, BVConst(0, IntSort), x.T[2], snap, x.T[0], x.T[1])
	m = m.Copy(r, x.T[2], y.T[2], snap, y.T[0], y.T[1])
	st.mems[byteMemName] = m
	e.bumpAllocs(st)
	return Value{T: []*Term{r, BVConst(0, IntSort), n}}
}

func (e *Engine) convert(fr *Frame, st *State, v Value, from, to types.Type, instr ssa.Instruction) Value {
	uf, ut := from.Underlying(), to.Underlying()
	bf, okf := uf.(*types.Basic)
	bt, okt := ut.(*types.Basic)
	if okf && okt {
		switch {
		case bf.Info()&types.IsInteger != 0 && bt.Info()&types.IsInteger != 0:
			w := basicSort(bt)
			if isSigned(from) {
				return scalar(SignExt(v.term(), w))
			}
			return scalar(ZeroExt(v.term(), w))
		case bf.Info()&types.IsString != 0 && bt.Info()&types.IsString != 0:
			return v
		case bf.Info()&types.IsInteger != 0 && bt.Info()&types.IsString != 0:
			// string(rune): opaque fresh string
			ts := freshTerms("runestr", to)
			st.assume(wfAssumptions(ts, to, true))
			return Value{T: ts}
		case bt.Info()&types.IsFloat != 0 || bf.Info()&types.IsFloat != 0:
			return scalar(FreshVar("fconv", basicSort(bt)))
		case bf.Kind() == types.UnsafePointer || bt.Kind() == types.UnsafePointer:
			unsup("unsafe pointer conversion")
		}
	}
	// string <-> []byte
	if okf && bf.Info()&types.IsString != 0 {
		if sl, ok := ut.(*types.Slice); ok {
			if eb, ok := sl.Elem().Underlying().(*types.Basic); ok && eb.Kind() == types.Uint8 {
				r := e.freshRegion()
				m := e.mem(st, byteMemName, elemKS, 8)
				st.mems[byteMemName] = m.Copy(r, BVConst(0, IntSort), v.T[2], m, v.T[0], v.T[1])
				e.bumpAllocs(st)
				// []byte("") is non-nil but empty; region stays non-zero
				return Value{T: []*Term{r, BVConst(0, IntSort), v.T[2], v.T[2]}}
			}
			unsup("string to %s", to)
		}
	}
	if okt && bt.Info()&types.IsString != 0 {
		if sl, ok := uf.(*types.Slice); ok {
			if eb, ok := sl.Elem().Underlying().(*types.Basic); ok && eb.Kind() == types.Uint8 {
				r := e.freshRegion()
				m := e.mem(st, byteMemName, elemKS, 8)
				st.mems[byteMemName] = m.Copy(r, BVConst(0, IntSort), v.T[2], m, v.T[0], v.T[1])
				e.bumpAllocs(st)
				// provenance: the string's content is that of the source bytes at this memory state
				e.strProv[r.val.Uint64()] = strProv{effectiveMem(m, v.T[0]).id, v.T[0], v.T[1], v.T[2]}
				reg := Ite(Eq(v.T[2], BVConst(0, IntSort)), BVConst(0, RegionSort), r)
				return Value{T: []*Term{reg, BVConst(0, IntSort), v.T[2]}}
			}
			unsup("%s to string", from)
		}
	}
	if _, ok := uf.(*types.Slice); ok {
		if _, ok := ut.(*types.Slice); ok {
			return v
		}
	}
	unsup("convert %s -> %s", from, to)
	return Value{}
}

// ---------- slices ----------

type sliceParts struct {
	region, off, ln, cp *Term
}

func (e *Engine) sliceOp(fr *Frame, st *State, in *ssa.Slice) Value {
	x := e.val(fr, in.X)
	tx := in.X.Type()
	var region, off, ln, cp *Term
	isString := false
	switch u := tx.Underlying().(type) {
	case *types.Slice:
		region, off, ln, cp = x.T[0], x.T[1], x.T[2], x.T[3]
	case *types.Basic:
		isString = true
		region, off, ln = x.T[0], x.T[1], x.T[2]
		cp = ln
	case *types.Pointer:
		a := x.A
		if a.kind != AArr {
			unsup("slice of non-array pointer")
		}
		e.nilCheck(fr, st, a, in)
		region, off = a.region, a.idx
		ln = BVConst(a.n, IntSort)
		cp = ln
		_ = u
	default:
		unsup("slice of %s", tx)
	}
	zero := BVConst(0, IntSort)
	lo := zero
	if in.Low != nil {
		lo = e.intVal(fr, in.Low)
	}
	var hi, max *Term
	if in.High != nil {
		hi = e.intVal(fr, in.High)
	} else {
		hi = ln
	}
	limit := cp
	if in.Max != nil {
		max = e.intVal(fr, in.Max)
		e.oblige(fr, st, "slice", in, And(BVSle(zero, max), BVSle(max, cp)), "slice max out of range")
		limit = max
	}
	// Go checks: 0 <= lo <= hi <= limit (cap for slices, len for strings/arrays)
	if in.High != nil {
		e.oblige(fr, st, "slice", in, And(BVSle(zero, hi), BVSle(hi, limit)), "slice high bound out of range")
		if e.strict && !fr.spec && !isString {
			// checked, but not assumed afterwards: what happens when the reslice does
			// reach into the spare capacity is still explored (and may panic later)
			pc, dead := st.pc, st.dead
			e.oblige(fr, st, "strictlen", in, BVSle(hi, ln), "reslice beyond len: the result could depend on spare capacity")
			st.pc, st.dead = pc, dead
		}
	}
	e.oblige(fr, st, "slice", in, And(BVSle(zero, lo), BVSle(lo, hi)), "slice low bound out of range")
	nl := BVSub(hi, lo)
	if isString {
		return Value{T: []*Term{region, BVAdd(off, lo), nl}}
	}
	ncap := BVSub(limit, lo)
	// a slice of a nil slice stays nil
	return Value{T: []*Term{region, BVAdd(off, lo), nl, ncap}}
}

func (e *Engine) intVal(fr *Frame, v ssa.Value) *Term {
	t := e.val(fr, v).term()
	if t.sort != IntSort {
		if isSigned(v.Type()) {
			return SignExt(t, IntSort)
		}
		return ZeroExt(t, IntSort)
	}
	return t
}

// ---------- function execution ----------

func (e *Engine) newFrame(fn *ssa.Function, parent *Frame) *Frame {
	e.frameSeq++
	fr := &Frame{id: e.frameSeq, fn: fn, regs: map[ssa.Value]Value{}, counts: map[string]int{}, iters: map[*ssa.Range]*iterInfo{}}
	if parent != nil {
		fr.depth = parent.depth + 1
		fr.spec = parent.spec
		fr.quiet = parent.quiet
	}
	return fr
}

type edgeKey struct{ from, to int }

// loopInfo describes natural loops of a function.
type loopInfo struct {
	head   *ssa.BasicBlock
	blocks map[*ssa.BasicBlock]bool
	ord    int
}

func findLoops(fn *ssa.Function) map[*ssa.BasicBlock]*loopInfo {
	loops := map[*ssa.BasicBlock]*loopInfo{}
	for _, b := range fn.Blocks {
		for _, s := range b.Succs {
			if s.Dominates(b) {
				li := loops[s]
				if li == nil {
					li = &loopInfo{head: s, blocks: map[*ssa.BasicBlock]bool{s: true}}
					loops[s] = li
				}
				// natural loop: nodes reaching b without passing s
				stack := []*ssa.BasicBlock{b}
				for len(stack) > 0 {
					x := stack[len(stack)-1]
					stack = stack[:len(stack)-1]
					if li.blocks[x] {
						continue
					}
					li.blocks[x] = true
					stack = append(stack, x.Preds...)
				}
			}
		}
	}
	// ordinal by source position of the head
	var heads []*ssa.BasicBlock
	for h := range loops {
		heads = append(heads, h)
	}
	sort.Slice(heads, func(i, j int) bool { return blockPos(heads[i]) < blockPos(heads[j]) || (blockPos(heads[i]) == blockPos(heads[j]) && heads[i].Index < heads[j].Index) })
	for i, h := range heads {
		loops[h].ord = i + 1
	}
	return loops
}

func blockPos(b *ssa.BasicBlock) token.Pos {
	// position of the loop = smallest valid position among instructions of the head,
	// falling back to its predecessors
	best := token.NoPos
	for _, in := range b.Instrs {
		if p := in.Pos(); p.IsValid() && (best == token.NoPos || p < best) {
			best = p
		}
		if d, ok := in.(*ssa.DebugRef); ok {
			if p := d.Expr.Pos(); p.IsValid() && (best == token.NoPos || p < best) {
				best = p
			}
		}
	}
	return best
}

// mergeStates joins states; conds[i] is the condition (relative to the common
// path prefix) under which state i is the one taken.
func mergeStates(sts []*State) (*State, []*Term) {
	if len(sts) == 1 {
		return sts[0], []*Term{True}
	}
	anc := sts[0].pc
	for _, s := range sts[1:] {
		anc = pcLCA(anc, s.pc)
	}
	conds := make([]*Term, len(sts))
	for i, s := range sts {
		conds[i] = pcDelta(s.pc, anc)
	}
	// The path conditions are mutually exclusive and (assumed below) exhaustive, so a merged
	// value is a choice between the DISTINCT values the states hold: states that agree on a value
	// form one alternative (ite(c1 or c3, x, ite(c2, y, z))), the last state's value is the default.
	// Merged values then nest as deep as there are different values, not as there are paths.
	n := len(sts)
	last := sts[n-1]
	res := last.clone()
	groupTerms := func(vals []*Term) *Term {
		def := vals[n-1]
		var order []*Term
		by := map[int][]*Term{}
		for i := 0; i < n-1; i++ {
			v := vals[i]
			if v == def {
				continue
			}
			if _, ok := by[v.id]; !ok {
				order = append(order, v)
			}
			by[v.id] = append(by[v.id], conds[i])
		}
		out := def
		for k := len(order) - 1; k >= 0; k-- {
			v := order[k]
			out = Ite(Or(by[v.id]...), v, out)
		}
		return out
	}
	for k, lv := range last.cells {
		ok := true
		for _, s := range sts[:n-1] {
			if sv, has := s.cells[k]; !has {
				ok = false
				break
			} else if len(sv) != len(lv) {
				panic("cell shape mismatch at merge")
			}
		}
		if !ok {
			delete(res.cells, k)
			continue
		}
		nv := make([]*Term, len(lv))
		vals := make([]*Term, n)
		for j := range lv {
			for i, s := range sts {
				vals[i] = s.cells[k][j]
			}
			nv[j] = groupTerms(vals)
		}
		res.cells[k] = nv
	}
	for k, lc := range last.clos {
		for _, s := range sts[:n-1] {
			if sc, ok := s.clos[k]; ok && sc != lc {
				delete(res.clos, k)
				break
			}
		}
	}
	names := map[string]bool{}
	for _, s := range sts {
		for k := range s.mems {
			names[k] = true
		}
	}
	for k := range names {
		ms := make([]*Mem, n)
		var shape *Mem
		for _, s := range sts {
			if m, ok := s.mems[k]; ok {
				shape = m
				break
			}
		}
		for i, s := range sts {
			if m, ok := s.mems[k]; ok {
				ms[i] = m
			} else {
				ms[i] = NewBaseMem(k, shape.ksort, shape.sort, "M0."+k)
			}
		}
		def := ms[n-1]
		var order []*Mem
		by := map[*Mem][]*Term{}
		for i := 0; i < n-1; i++ {
			if ms[i] == def {
				continue
			}
			if _, ok := by[ms[i]]; !ok {
				order = append(order, ms[i])
			}
			by[ms[i]] = append(by[ms[i]], conds[i])
		}
		out := def
		for q := len(order) - 1; q >= 0; q-- {
			out = MergeMem(Or(by[order[q]]...), order[q], out)
		}
		res.mems[k] = out
	}
	gnames := map[string]Sort{}
	for _, s := range sts {
		for k, g := range s.ghost {
			gnames[k] = g.sort
		}
	}
	for k, so := range gnames {
		vals := make([]*Term, n)
		for i, s := range sts {
			if g, ok := s.ghost[k]; ok {
				vals[i] = g
			} else {
				vals[i] = Var("ghost0."+k, so)
			}
		}
		res.ghost[k] = groupTerms(vals)
	}
	for _, s := range sts {
		if len(s.defers) > len(res.defers) {
			res.defers = s.defers
		}
	}
	res.pc = anc
	res.dead = false
	res.assume(Or(conds...))
	return res, conds
}

// execFunc symbolically executes fn from state st and returns its return points.
func (e *Engine) execFunc(fr *Frame, args []Value, st *State) []retPoint {
	fn := fr.fn
	if fn.Blocks == nil {
		unsup("function %s has no body", fn)
	}
	for _, f := range e.stack {
		if f == fn && !strings.HasPrefix(fn.Name(), "verif_contract_") && !strings.HasPrefix(fn.Name(), "verif_extern_") {
			unsup("recursive inlining of %s", fn)
		}
	}
	if len(e.stack) > e.maxDepth {
		unsup("inline depth exceeded at %s", fn)
	}
	e.stack = append(e.stack, fn)
	defer func() { e.stack = e.stack[:len(e.stack)-1] }()

	for i, p := range fn.Params {
		fr.regs[p] = args[i]
	}
	fr.loops = findLoops(fn)
	var rets []retPoint
	e.execRegion(fr, nil, st, &rets)
	return rets
}

// execRegion executes either the whole function (li == nil) or one iteration
// of the loop li that is being unrolled. It returns the states leaving the
// region and the states arriving back at the head of li.
func (e *Engine) execRegion(fr *Frame, li *loopInfo, st *State, rets *[]retPoint) (map[edgeKey][]*State, []*State) {
	var blocks map[*ssa.BasicBlock]bool
	entry := fr.fn.Blocks[0]
	if li != nil {
		blocks = li.blocks
		entry = li.head
	}
	order := rpoRegion(entry, blocks)
	rc := &regionCtx{blocks: blocks, entry: entry, out: map[edgeKey][]*State{}, exits: map[edgeKey][]*State{}, unroll: li}
	done := map[*ssa.BasicBlock]bool{}
	for _, b := range order {
		if done[b] {
			continue
		}
		var live []*State
		var liveEdge []int // index into b.Preds, -1 for the region entry
		if b == entry {
			live = append(live, st)
			liveEdge = append(liveEdge, -1)
		}
		for i, p := range b.Preds {
			k := edgeKey{p.Index, b.Index}
			ss := rc.out[k]
			if len(ss) == 0 {
				continue
			}
			delete(rc.out, k)
			dup := false
			for j := 0; j < i; j++ {
				if b.Preds[j] == p {
					dup = true
				}
			}
			if dup {
				continue
			}
			var l2 []*State
			for _, s := range ss {
				if !s.dead {
					l2 = append(l2, s)
				}
			}
			if len(l2) == 0 {
				continue
			}
			m, _ := mergeStates(l2)
			live = append(live, m)
			liveEdge = append(liveEdge, i)
		}
		if len(live) == 0 {
			continue
		}
		cur, conds := mergeStates(live)
		// phis select on the condition of the incoming edge
		if len(b.Instrs) > 0 && b != entry {
			if _, ok := b.Instrs[0].(*ssa.Phi); ok {
				for p, v := range e.evalPhis(fr, b, liveEdge, conds) {
					fr.regs[p] = v
				}
			}
		}
		if l2 := fr.loops[b]; l2 != nil && l2 != li {
			if n := e.unrollCount(fr, l2); n > 0 {
				// complete unrolling with an unwinding obligation
				for it := 0; ; it++ {
					ex, bk := e.execRegion(fr, l2, cur, rets)
					for k, ss := range ex {
						rc.route(k, ss, fr)
					}
					var lb []*State
					for _, s := range bk {
						if !s.dead {
							lb = append(lb, s)
						}
					}
					if len(lb) == 0 {
						break
					}
					cur, _ = mergeStates(lb)
					if it+1 >= n {
						e.oblige(fr, cur, "unwind", b.Instrs[0], False, fmt.Sprintf("loop %d not exhausted after %d iterations", l2.ord, n))
						break
					}
				}
				for lbk := range l2.blocks {
					done[lbk] = true
				}
				continue
			}
			cur = e.enterLoop(fr, l2, cur)
			if cur == nil {
				continue
			}
		}
		e.execBlock(fr, b, cur, rc, rets)
	}
	return rc.exits, rc.backs
}

type regionCtx struct {
	blocks map[*ssa.BasicBlock]bool
	entry  *ssa.BasicBlock
	out    map[edgeKey][]*State
	exits  map[edgeKey][]*State
	backs  []*State
	unroll *loopInfo
}

func (rc *regionCtx) route(k edgeKey, ss []*State, fr *Frame) {
	to := fr.fn.Blocks[k.to]
	if rc.blocks != nil && !rc.blocks[to] {
		rc.exits[k] = append(rc.exits[k], ss...)
		return
	}
	rc.out[k] = append(rc.out[k], ss...)
}

func rpoRegion(entry *ssa.BasicBlock, blocks map[*ssa.BasicBlock]bool) []*ssa.BasicBlock {
	seen := map[*ssa.BasicBlock]bool{}
	var post []*ssa.BasicBlock
	var dfs func(b *ssa.BasicBlock)
	dfs = func(b *ssa.BasicBlock) {
		seen[b] = true
		for _, s := range b.Succs {
			if blocks != nil && !blocks[s] {
				continue
			}
			if seen[s] || s.Dominates(b) {
				continue
			}
			dfs(s)
		}
		post = append(post, b)
	}
	dfs(entry)
	for i, j := 0, len(post)-1; i < j; i, j = i+1, j-1 {
		post[i], post[j] = post[j], post[i]
	}
	return post
}

func (e *Engine) evalPhis(fr *Frame, b *ssa.BasicBlock, liveEdge []int, conds []*Term) map[*ssa.Phi]Value {
	res := map[*ssa.Phi]Value{}
	for _, in := range b.Instrs {
		phi, ok := in.(*ssa.Phi)
		if !ok {
			break
		}
		var acc Value
		first := true
		t := phi.Type()
		for i := len(liveEdge) - 1; i >= 0; i-- {
			if liveEdge[i] < 0 {
				continue
			}
			v := e.val(fr, phi.Edges[liveEdge[i]])
			if first {
				acc = v
				first = false
				continue
			}
			acc = e.iteValue(conds[i], v, acc, t)
		}
		res[phi] = acc
	}
	return res
}

func (e *Engine) iteValue(c *Term, a, b Value, t types.Type) Value {
	if a.A != nil && b.A != nil && a.T == nil && b.T == nil {
		if a.A == b.A {
			return a
		}
	}
	fa, fb := e.flat(a, t), e.flat(b, t)
	out := make([]*Term, len(fa))
	for i := range fa {
		out[i] = Ite(c, fa[i], fb[i])
	}
	v := e.unflat(out, t)
	if a.C != nil && b.C != nil && a.C == b.C {
		v.C = a.C
	}
	return v
}

func (e *Engine) execBlock(fr *Frame, b *ssa.BasicBlock, st *State, rc *regionCtx, rets *[]retPoint) {
	for _, in := range b.Instrs {
		if st.dead {
			return
		}
		switch x := in.(type) {
		case *ssa.If:
			c := e.val(fr, x.Cond).term()
			tb, fb := b.Succs[0], b.Succs[1]
			// a branch whose outcome is literally among the path facts is not a decision
			if pcHas(st.pc, c) {
				e.edge(fr, rc, b, tb, st)
				return
			}
			if pcHas(st.pc, Not(c)) {
				e.edge(fr, rc, b, fb, st)
				return
			}
			s1 := st.clone()
			s1.assumeBranch(c)
			s2 := st
			s2.assumeBranch(Not(c))
			e.edge(fr, rc, b, tb, s1)
			e.edge(fr, rc, b, fb, s2)
			return
		case *ssa.Jump:
			e.edge(fr, rc, b, b.Succs[0], st)
			return
		case *ssa.Return:
			vals := make([]Value, len(x.Results))
			for i, r := range x.Results {
				vals[i] = e.val(fr, r)
			}
			*rets = append(*rets, retPoint{st, vals})
			return
		case *ssa.Panic:
			if fr.fn.Name() == "requires" || isIntrinsicPanic(fr.fn) {
				st.kill()
				return
			}
			e.oblige(fr, st, "panic", in, False, "explicit panic reachable")
			st.kill()
			return
		default:
			e.execInstr(fr, st, in)
		}
	}
}

func isIntrinsicPanic(fn *ssa.Function) bool { return false }

// edge routes a state along a CFG edge, handling loop back edges.
func (e *Engine) edge(fr *Frame, rc *regionCtx, from, to *ssa.BasicBlock, s *State) {
	if li := fr.loops[to]; li != nil && to.Dominates(from) && li.blocks[from] {
		if rc.unroll == li {
			rc.backs = append(rc.backs, s)
			return
		}
		e.backEdge(fr, li, s, from)
		return
	}
	for _, li := range fr.loops {
		if li.blocks[from] && !li.blocks[to] {
			e.loopFrameCheck(fr, li, s)
		}
	}
	rc.route(edgeKey{from.Index, to.Index}, []*State{s}, fr)
}

func (e *Engine) execInstr(fr *Frame, st *State, in ssa.Instruction) {
	if !e.lenient {
		e.execInstr1(fr, st, in)
		return
	}
	defer func() {
		if r := recover(); r != nil {
			if _, ok := r.(unsupported); !ok {
				if _, ok2 := r.(contractError); !ok2 {
					panic(r)
				}
			}
			// lenient mode: the instruction yields an arbitrary value
			if v, ok := in.(ssa.Value); ok {
				func() {
					defer func() { recover() }()
					t := v.Type()
					if _, isTuple := t.(*types.Tuple); isTuple || t != nil {
						ts := freshTerms("lenient", t)
						fr.regs[v] = e.unflat(ts, t)
					}
				}()
			}
		}
	}()
	e.execInstr1(fr, st, in)
}

func (e *Engine) execInstr1(fr *Frame, st *State, in ssa.Instruction) {
	switch x := in.(type) {
	case *ssa.DebugRef, *ssa.Phi:
	case *ssa.Alloc:
		t := x.Type().(*types.Pointer).Elem()
		_, isArr := t.Underlying().(*types.Array)
		if (x.Heap && !capturedOnly(x)) || isArr {
			allocsBefore, hadAllocs := st.ghost["allocs"]
			a := e.allocObject(st, t)
			if !x.Heap && isArr {
				fr.localRegions = append(fr.localRegions, a.region.val.Uint64())
				if fr.firstMemID == 0 {
					fr.firstMemID = memNext
				}
				// stack arrays do not count as heap allocations
				if hadAllocs {
					st.ghost["allocs"] = allocsBefore
				}
			}
			fr.regs[x] = Value{A: a}
			return
		}
		k := cellKey{fr.id, x}
		st.cells[k] = zeroTerms(t)
		fr.regs[x] = Value{A: &Addr{kind: ALocal, cell: k, typ: t}}
	case *ssa.Store:
		a := e.val(fr, x.Addr).A
		if a == nil {
			unsup("store through non-address")
		}
		e.store(fr, st, a, e.val(fr, x.Val), x)
	case *ssa.UnOp:
		v := e.val(fr, x.X)
		switch x.Op {
		case token.MUL:
			if v.A == nil {
				unsup("load through non-address %s", x.X)
			}
			fr.regs[x] = e.load(fr, st, v.A, x)
		case token.NOT:
			fr.regs[x] = scalar(Not(v.term()))
		case token.SUB:
			fr.regs[x] = scalar(BVNeg(v.term()))
		case token.XOR:
			fr.regs[x] = scalar(BVNot(v.term()))
		case token.ARROW:
			ts := freshTerms("recv", x.Type())
			st.assume(wfAssumptions(ts, x.Type(), false))
			fr.regs[x] = e.unflat(ts, x.Type())
		default:
			unsup("unop %s", x.Op)
		}
	case *ssa.BinOp:
		fr.regs[x] = e.binop(fr, st, x.Op, e.val(fr, x.X), e.val(fr, x.Y), x.X.Type(), x.Y.Type(), x)
	case *ssa.Convert:
		fr.regs[x] = e.convert(fr, st, e.val(fr, x.X), x.X.Type(), x.Type(), x)
	case *ssa.ChangeType:
		v := e.val(fr, x.X)
		if v.A != nil {
			// pointer type change: keep address, retarget type
			na := *v.A
			if pt, ok := x.Type().Underlying().(*types.Pointer); ok {
				na.typ = pt.Elem()
				if na.kind == AHeap && na.off == 0 {
					// object types with identical underlying types share leaves but memory names differ:
					// keep the original root.
				}
			}
			v = Value{T: v.T, A: &na, C: v.C}
		}
		fr.regs[x] = v
	case *ssa.ChangeInterface:
		fr.regs[x] = e.val(fr, x.X)
	case *ssa.MakeInterface:
		fr.regs[x] = e.makeInterface(fr, st, e.val(fr, x.X), x.X.Type())
	case *ssa.TypeAssert:
		e.typeAssert(fr, st, x)
	case *ssa.Extract:
		tup := e.val(fr, x.Tuple)
		tt := x.Tuple.Type().(*types.Tuple)
		lo := 0
		for i := 0; i < x.Index; i++ {
			lo += nLeaves(tt.At(i).Type())
		}
		n := nLeaves(tt.At(x.Index).Type())
		fr.regs[x] = e.unflat(tup.T[lo:lo+n], tt.At(x.Index).Type())
	case *ssa.Field:
		v := e.val(fr, x.X)
		lo, hi := fieldRange(x.X.Type(), x.Field)
		if hi > len(v.T) {
			unsup("field %d of a %s value with %d leaves in %s (%s)", x.Field, x.X.Type(), len(v.T), fnName(fr.fn), x.X)
		}
		fr.regs[x] = e.unflat(v.T[lo:hi], x.Type())
	case *ssa.FieldAddr:
		v := e.val(fr, x.X)
		a := v.A
		if a == nil {
			unsup("fieldaddr on non-address")
		}
		st0 := a.typ
		lo, _ := fieldRange(st0, x.Field)
		ft := st0.Underlying().(*types.Struct).Field(x.Field).Type()
		na := *a
		na.typ = ft
		switch a.kind {
		case AHeap:
			e.nilCheck(fr, st, a, x)
			na.off = a.off + lo
			if arr, ok := ft.Underlying().(*types.Array); ok {
				// arrays embedded in heap objects live in their own region
				ls := leavesOf(a.root)
				path := ""
				if a.off+lo < len(ls) {
					path = ls[a.off+lo].path
				}
				if arr.Len() > maxValueArray || true {
					path = fmt.Sprintf("%s@%d", st0.Underlying().(*types.Struct).Field(x.Field).Name(), a.off+lo)
					na = Addr{kind: AArr, typ: ft, elem: arr.Elem(), region: e.fieldRegion(a.root, path, a.ref, arr.Len()), idx: BVConst(0, IntSort), n: arr.Len()}
				}
			}
		case ALocal, AGlobal:
			na.off = a.off + lo
		case AElem:
			na.off = a.off + lo
		default:
			unsup("fieldaddr on addr kind %d", a.kind)
		}
		fr.regs[x] = Value{A: &na}
	case *ssa.IndexAddr:
		e.indexAddr(fr, st, x)
	case *ssa.Index:
		v := e.val(fr, x.X)
		if isStringType(x.X.Type()) {
			idx := e.intVal(fr, x.Index)
			e.oblige(fr, st, "index", x, And(BVSle(BVConst(0, IntSort), idx), BVSlt(idx, v.T[2])), "string index out of range")
			l := leavesOf(types.Typ[types.Uint8])[0]
			fr.regs[x] = scalar(e.memRead(st, byteMemName, elemKS, l, []*Term{v.T[0], BVAdd(v.T[1], idx)}))
			return
		}
		arr := x.X.Type().Underlying().(*types.Array)
		idx := e.intVal(fr, x.Index)
		e.oblige(fr, st, "index", x, And(BVSle(BVConst(0, IntSort), idx), BVSlt(idx, BVConst(arr.Len(), IntSort))), "array index out of range")
		n := nLeaves(arr.Elem())
		if idx.IsConst() {
			i := int(idx.val.Int64())
			fr.regs[x] = e.unflat(v.T[i*n:(i+1)*n], x.Type())
			return
		}
		outv := make([]*Term, n)
		for j := 0; j < n; j++ {
			acc := v.T[j]
			for i := int64(1); i < arr.Len(); i++ {
				acc = Ite(Eq(idx, BVConst(i, IntSort)), v.T[int(i)*n+j], acc)
			}
			outv[j] = acc
		}
		fr.regs[x] = e.unflat(outv, x.Type())
	case *ssa.Lookup:
		e.lookup(fr, st, x)
	case *ssa.Slice:
		fr.regs[x] = e.sliceOp(fr, st, x)
	case *ssa.SliceToArrayPointer:
		v := e.val(fr, x.X)
		arr, _ := isArrayPtr(x.Type())
		e.oblige(fr, st, "s2a", x, BVSle(BVConst(arr.Len(), IntSort), v.T[2]), "slice too short for array pointer conversion")
		fr.regs[x] = Value{A: &Addr{kind: AArr, typ: arr, elem: arr.Elem(), region: v.T[0], idx: v.T[1], n: arr.Len()}}
	case *ssa.MakeSlice:
		ln := e.intVal(fr, x.Len)
		cp := e.intVal(fr, x.Cap)
		lim := BVConstU(1<<48, IntSort)
		e.oblige(fr, st, "makeslice", x, And(BVSle(BVConst(0, IntSort), ln), BVSle(ln, cp), BVSlt(cp, lim)), "makeslice: len out of range")
		sl := x.Type().Underlying().(*types.Slice)
		r := e.freshRegion()
		for _, l := range leavesOf(sl.Elem()) {
			name := elemMemName(sl.Elem(), l)
			z := BVConst(0, l.sort)
			if l.sort == BoolSort {
				z = False
			}
			st.mems[name] = e.mem(st, name, elemKS, l.sort).Fill(r, z)
		}
		e.bumpAllocs(st)
		fr.regs[x] = Value{T: []*Term{r, BVConst(0, IntSort), ln, cp}}
	case *ssa.MakeMap:
		ref := e.freshRef()
		e.mapInit(st, x.Type(), ref)
		e.bumpAllocs(st)
		fr.regs[x] = scalar(ref)
	case *ssa.MakeChan:
		e.bumpAllocs(st)
		fr.regs[x] = scalar(e.freshRef())
	case *ssa.MakeClosure:
		fn := x.Fn.(*ssa.Function)
		bs := make([]Value, len(x.Bindings))
		for i, b := range x.Bindings {
			bs[i] = e.val(fr, b)
		}
		e.bumpAllocs(st)
		fr.regs[x] = Value{C: &Closure{fn: fn, bindings: bs}, T: []*Term{BVConst(1, RefSort)}}
	case *ssa.MapUpdate:
		e.mapUpdate(fr, st, x)
	case *ssa.Range:
		e.rangeInit(fr, st, x)
	case *ssa.Next:
		e.rangeNext(fr, st, x)
	case *ssa.Call:
		vals := e.call(fr, st, &x.Call, x)
		res := x.Call.Signature().Results()
		switch res.Len() {
		case 0:
		case 1:
			fr.regs[x] = vals[0]
		default:
			var ts []*Term
			for i, v := range vals {
				ts = append(ts, e.flat(v, res.At(i).Type())...)
			}
			fr.regs[x] = Value{T: ts}
		}
	case *ssa.Defer:
		e.deferCall(fr, st, x)
	case *ssa.RunDefers:
		e.runDefers(fr, st, x)
	case *ssa.Go:
		e.goCall(fr, st, x)
	case *ssa.Send:
		e.send(fr, st, x)
	case *ssa.Select:
		e.selectOp(fr, st, x)
	default:
		unsup("instruction %T (%s)", in, in)
	}
}

func (e *Engine) indexAddr(fr *Frame, st *State, x *ssa.IndexAddr) {
	v := e.val(fr, x.X)
	idx := e.intVal(fr, x.Index)
	zero := BVConst(0, IntSort)
	switch u := x.X.Type().Underlying().(type) {
	case *types.Slice:
		e.oblige(fr, st, "index", x, And(BVSle(zero, idx), BVSlt(idx, v.T[2])), "index out of range")
		fr.regs[x] = Value{A: &Addr{kind: AElem, typ: u.Elem(), elem: u.Elem(), region: v.T[0], idx: BVAdd(v.T[1], idx)}}
	case *types.Pointer:
		a := v.A
		if a == nil || a.kind != AArr {
			unsup("indexaddr on pointer that is not an array pointer (%s)", x.X.Type())
		}
		e.nilCheck(fr, st, a, x)
		e.oblige(fr, st, "index", x, And(BVSle(zero, idx), BVSlt(idx, BVConst(a.n, IntSort))), "array index out of range")
		fr.regs[x] = Value{A: &Addr{kind: AElem, typ: a.elem, elem: a.elem, region: a.region, idx: BVAdd(a.idx, idx)}}
	default:
		unsup("indexaddr on %s", x.X.Type())
	}
}

func (e *Engine) makeInterface(fr *Frame, st *State, v Value, t types.Type) Value {
	tag := e.typeTag(t)
	var h *Term
	if _, ok := t.Underlying().(*types.Pointer); ok {
		if ts, ok := e.tryFlat(v, t); ok && len(ts) == 1 {
			h = ZeroExt(ts[0], 64)
		}
	}
	if h == nil {
		if b, ok := t.Underlying().(*types.Basic); ok && b.Info()&types.IsInteger != 0 {
			if isSigned(t) {
				h = SignExt(v.term(), 64)
			} else {
				h = ZeroExt(v.term(), 64)
			}
		}
	}
	if h == nil {
		h = FreshVar("ifaceh", 64)
		e.bumpAllocs(st)
	}
	e.ifaceVals[h.id] = ifaceVal{t, v}
	return Value{T: []*Term{tag, h}}
}

func (e *Engine) typeAssert(fr *Frame, st *State, x *ssa.TypeAssert) {
	v := e.val(fr, x.X)
	at := x.AssertedType
	var ok *Term
	var res Value
	if _, isIface := at.Underlying().(*types.Interface); isIface {
		// interface-to-interface: succeeds iff dynamic type implements; unknown statically
		ok = And(Neq(v.T[0], BVConst(0, RefSort)), FreshVar("implements", BoolSort))
		if iv, known := e.ifaceVals[v.T[1].id]; known && v.T[0].IsConst() {
			ok = BoolConst(types.Implements(iv.typ, at.Underlying().(*types.Interface)))
		}
		res = v
	} else {
		ok = Eq(v.T[0], e.typeTag(at))
		if iv, known := e.ifaceVals[v.T[1].id]; known && types.Identical(iv.typ, at) {
			res = iv.val
		} else if _, isPtr := at.Underlying().(*types.Pointer); isPtr && nLeaves(at) == 1 {
			res = e.ptrFromTerms([]*Term{Extract(v.T[1], 31, 0)}, at)
		} else {
			ts := freshTerms("assert", at)
			st.assume(wfAssumptions(ts, at, false))
			res = e.unflat(ts, at)
		}
	}
	if x.CommaOk {
		// (value, ok): value is zero when !ok
		fl := e.flat(res, at)
		zs := zeroTerms(at)
		outv := make([]*Term, 0, len(fl)+1)
		for i := range fl {
			outv = append(outv, Ite(ok, fl[i], zs[i]))
		}
		outv = append(outv, ok)
		fr.regs[x] = Value{T: outv}
		return
	}
	e.oblige(fr, st, "typeassert", x, ok, "type assertion may fail")
	fr.regs[x] = res
}

// describe helper for debugging
func (v Value) String() string {
	var parts []string
	for _, t := range v.T {
		s := t.String()
		if len(s) > 60 {
			s = s[:60] + "..."
		}
		parts = append(parts, s)
	}
	return "{" + strings.Join(parts, ", ") + "}"
}

// capturedOnly: a variable of a harness/spec function that is heap-allocated only because a
// closure (vForall/vExists body) captures it. It is not reachable from the code under contract,
// so it is kept as a frame cell and a modifies-havoc of the heap does not touch it.
func capturedOnly(x *ssa.Alloc) bool {
	fn := x.Parent()
	for fn.Parent() != nil {
		fn = fn.Parent()
	}
	n := fn.Name()
	if !(strings.HasPrefix(n, "verif_") || strings.HasPrefix(n, "spec_") || strings.HasPrefix(n, "VerifSpec")) {
		return false
	}
	if _, isArr := x.Type().(*types.Pointer).Elem().Underlying().(*types.Array); isArr {
		return false
	}
	closure := false
	for _, r := range *x.Referrers() {
		switch r := r.(type) {
		case *ssa.Store:
			if r.Addr != x {
				return false
			}
		case *ssa.UnOp, *ssa.DebugRef:
		case *ssa.MakeClosure:
			closure = true
		default:
			return false
		}
	}
	return closure
}

// splitStrIte: the three leaves of a string are ite(c, x_i, y_i) on one common condition
// (leaves equal in both alternatives stay as they are).
func splitStrIte(s []*Term) (c *Term, x, y []*Term, ok bool) {
	for _, l := range s[:3] {
		if l.op == "ite" {
			c = l.args[0]
			break
		}
	}
	if c == nil {
		return nil, nil, nil, false
	}
	for _, l := range s[:3] {
		if l.op == "ite" && l.args[0] == c {
			x = append(x, l.args[1])
			y = append(y, l.args[2])
		} else if l.op == "ite" {
			return nil, nil, nil, false
		} else {
			x = append(x, l)
			y = append(y, l)
		}
	}
	return c, x, y, true
}

func (fr *Frame) isLocalRegion(r uint64) bool {
	for _, x := range fr.localRegions {
		if x == r {
			return true
		}
	}
	return false
}

// borrowCheck: a value stored into memory that outlives the call must not be a view of a
// borrowed buffer (vBorrowed): one obligation per slice/string leaf that could be one.
func (e *Engine) borrowCheck(fr *Frame, st *State, ts []*Term, t types.Type, instr ssa.Instruction, where string) {
	if len(e.borrowed) == 0 || fr.spec {
		return
	}
	ls := leavesOf(t)
	for i, l := range ls {
		if l.kind != LRegion || i >= len(ts) || !byteView(l.typ) {
			continue
		}
		for _, b := range e.borrowed {
			if EqOff(ts[i], b) == False || regionCannotBe(ts[i], b) {
				continue
			}
			// an empty slice retains nothing
			goal := Neq(ts[i], b)
			if i+2 < len(ts) && ls[i+2].kind == LLen {
				goal = Or(goal, Eq(ts[i+2], BVConst(0, IntSort)))
			}
			e.oblige(fr, st, "borrow", instr, goal, "a view of the borrowed buffer is not stored in "+where)
		}
	}
}

// byteView: a slice of bytes or a string: the only types whose backing memory can be (part of)
// a []byte buffer (no unsafe conversions in the repository).
func byteView(t types.Type) bool {
	if t == nil {
		return true
	}
	switch u := t.Underlying().(type) {
	case *types.Slice:
		b, ok := u.Elem().Underlying().(*types.Basic)
		return ok && b.Kind() == types.Uint8
	case *types.Basic:
		return u.Info()&types.IsString != 0
	case *types.Pointer:
		if a, ok := u.Elem().Underlying().(*types.Array); ok {
			b, ok := a.Elem().Underlying().(*types.Basic)
			return ok && b.Kind() == types.Uint8
		}
	}
	return false
}
