package main

import (
	"bytes"
	"context"
	"encoding/gob"
	"fmt"
	"os"
	"os/exec"
	"path/filepath"
	"strings"
	"sync"
	"time"
)

type Verdict struct {
	Status  string // "unsat" (discharged), "sat", "unknown"
	Solver  string
	Time    float64
	Model   map[string]string
	SMTSize int
	Output  string
}

type solverSpec struct {
	name string
	cmd  []string
}

var solvers = []solverSpec{
	{"z3-new", []string{"z3-new", "-smt2", "-in"}},
	{"cvc5", []string{"cvc5", "--lang=smt2", "--produce-models"}},
	{"z3", []string{"z3", "-smt2", "-in"}},
}

// buildQuery renders hyp /\ not goal.
func (e *Engine) buildQuery(o *Obligation, getValues []*Term) string {
	return e.buildQueryFrom(o.hyp, o.goal)
}

// ---------- relevance slicing ----------
//
// An obligation is first tried against the part of its hypotheses that shares symbols
// (variables, uninterpreted function names) with the goal, transitively. Dropping hypotheses
// is sound for a proof: "unsat" of the smaller query implies "unsat" of the full one. Any other
// answer means nothing and the full query is built and decided.

var noSlice = os.Getenv("GOVC_NO_SLICE") != ""

var symIDs = map[string]int{}
var termSyms = map[int][]int{}

func symsOf(t *Term) []int {
	if s, ok := termSyms[t.id]; ok {
		return s
	}
	set := map[int]bool{}
	Walk(t, map[int]bool{}, func(x *Term) {
		if x.op == "var" || x.op == "uf" {
			id, ok := symIDs[x.name]
			if !ok {
				id = len(symIDs) + 1
				symIDs[x.name] = id
			}
			set[id] = true
		}
	})
	out := make([]int, 0, len(set))
	for k := range set {
		out = append(out, k)
	}
	termSyms[t.id] = out
	return out
}

func flattenAnd(t *Term, out []*Term) []*Term {
	if t.op == "and" {
		for _, a := range t.args {
			out = flattenAnd(a, out)
		}
		return out
	}
	return append(out, t)
}

// slicedHyp returns the conjunction of the hypotheses relevant to the goal, and whether anything
// was dropped.
func slicedHyp(hyp, goal *Term) (*Term, bool) {
	conj := flattenAnd(hyp, nil)
	bySym := map[int][]int{}
	for i, c := range conj {
		for _, s := range symsOf(c) {
			bySym[s] = append(bySym[s], i)
		}
	}
	in := make([]bool, len(conj))
	seenSym := map[int]bool{}
	var work []int
	for _, s := range symsOf(goal) {
		if !seenSym[s] {
			seenSym[s] = true
			work = append(work, s)
		}
	}
	n := 0
	for len(work) > 0 {
		s := work[len(work)-1]
		work = work[:len(work)-1]
		for _, i := range bySym[s] {
			if in[i] {
				continue
			}
			in[i] = true
			n++
			for _, s2 := range symsOf(conj[i]) {
				if !seenSym[s2] {
					seenSym[s2] = true
					work = append(work, s2)
				}
			}
		}
	}
	if n == len(conj) {
		return hyp, false
	}
	var keep []*Term
	for i, c := range conj {
		if in[i] {
			keep = append(keep, c)
		}
	}
	return And(keep...), true
}

func (e *Engine) buildQueryFrom(hyp, goal *Term) string {
	fs := []*Term{hyp, Not(goal)}
	ax := e.expandQuantifiers(fs, []*Term{Not(goal)})
	p := NewPrinter()
	var body strings.Builder
	for _, f := range fs {
		p.Assert(f)
	}
	for _, a := range ax {
		p.Assert(a)
	}
	// facts about init-time memory, then literal facts
	inits := e.initFactsFor(append(fs, ax...))
	for _, a := range inits {
		p.Assert(a)
	}
	e.literalFacts(p, append(append(fs, ax...), inits...))
	body.WriteString("(set-option :produce-models true)\n(set-logic QF_UFBV)\n")
	body.WriteString(p.String())
	body.WriteString("(check-sat)\n")
	return body.String()
}

// literalFacts asserts the bytes of every string literal whose region occurs.
func (e *Engine) literalFacts(p *Printer, fs []*Term) {
	seen := map[int]bool{}
	used := map[uint64]bool{}
	hasLit := false
	for _, f := range fs {
		Walk(f, seen, func(t *Term) {
			if t.op == "const" && t.sort == RegionSort {
				id := t.val.Uint64()
				if _, ok := e.litByID[id]; ok {
					used[id] = true
				}
			}
			if t.op == "uf" && t.name == "litbyte" {
				hasLit = true
			}
		})
	}
	if !hasLit {
		return
	}
	for id := range used {
		s := e.litByID[id]
		for i := 0; i < len(s); i++ {
			p.Assert(Eq(UF("litbyte", 8, BVConstU(id, RegionSort), BVConst(int64(i), IntSort)), BVConst(int64(s[i]), 8)))
		}
	}
}

var smtDir string
var solverTimeout = 10 * time.Second

func runSolver(ctx context.Context, sp solverSpec, query string, timeout time.Duration) (string, string, float64) {
	ctx, cancel := context.WithTimeout(ctx, timeout)
	defer cancel()
	start := time.Now()
	cmd := exec.CommandContext(ctx, sp.cmd[0], sp.cmd[1:]...)
	cmd.Stdin = strings.NewReader(query)
	var out bytes.Buffer
	cmd.Stdout = &out
	cmd.Stderr = &out
	_ = cmd.Run()
	el := time.Since(start).Seconds()
	s := out.String()
	first := strings.TrimSpace(strings.SplitN(s, "\n", 2)[0])
	switch first {
	case "sat", "unsat", "unknown":
		return first, s, el
	}
	if ctx.Err() != nil {
		return "timeout", s, el
	}
	return "error", s, el
}

// solveLocal races the portfolio; the first definite answer wins and the
// other solvers are killed.
func solveLocal(query string, timeout time.Duration, portfolio bool) Verdict {
	ft := minDur(timeout, 3*time.Second)
	if !portfolio {
		ft = timeout
	}
	st, out, el := runSolver(context.Background(), solvers[0], query, ft)
	if st == "sat" || st == "unsat" {
		return Verdict{Status: st, Solver: solvers[0].name, Time: el, SMTSize: len(query), Output: out}
	}
	if !portfolio {
		return Verdict{Status: "unknown", Solver: solvers[0].name, Time: el, SMTSize: len(query), Output: out}
	}
	type res struct {
		st, out, solver string
		el              float64
	}
	ctx, cancel := context.WithCancel(context.Background())
	defer cancel()
	ch := make(chan res, len(solvers))
	for _, sp := range solvers {
		go func(sp solverSpec) {
			s, o, t := runSolver(ctx, sp, query, timeout)
			ch <- res{s, o, sp.name, t}
		}(sp)
	}
	best := Verdict{Status: "unknown", SMTSize: len(query), Time: el, Solver: "portfolio"}
	for range solvers {
		r := <-ch
		if r.st == "sat" || r.st == "unsat" {
			return Verdict{Status: r.st, Solver: r.solver, Time: r.el + el, SMTSize: len(query), Output: r.out}
		}
		best.Output += fmt.Sprintf("[%s: %s] ", r.solver, r.st)
		if r.el+el > best.Time {
			best.Time = r.el + el
		}
	}
	return best
}

// ---------- solver daemon ----------
// Forking from a process with a multi-GB heap costs ~100 ms per exec, so the
// solvers are started by a small helper process created before /repo is loaded.

type solveReq struct {
	ID        int
	Query     string
	TimeoutMs int
	Portfolio bool
	Second    bool // run a specific second solver for confirmation
}

type solveResp struct {
	ID int
	V  Verdict
}

type daemonClient struct {
	mu      sync.Mutex
	enc     *gob.Encoder
	pending map[int]chan Verdict
	next    int
}

var daemon *daemonClient

func startDaemon() {
	cmd := exec.Command(os.Args[0], "solverd")
	in, _ := cmd.StdinPipe()
	out, _ := cmd.StdoutPipe()
	cmd.Stderr = os.Stderr
	if err := cmd.Start(); err != nil {
		fmt.Fprintln(os.Stderr, "cannot start solver daemon:", err)
		return
	}
	d := &daemonClient{enc: gob.NewEncoder(in), pending: map[int]chan Verdict{}}
	go func() {
		dec := gob.NewDecoder(out)
		for {
			var r solveResp
			if err := dec.Decode(&r); err != nil {
				return
			}
			d.mu.Lock()
			ch := d.pending[r.ID]
			delete(d.pending, r.ID)
			d.mu.Unlock()
			if ch != nil {
				ch <- r.V
			}
		}
	}()
	daemon = d
}

func solverDaemonMain() {
	dec := gob.NewDecoder(os.Stdin)
	enc := gob.NewEncoder(os.Stdout)
	var mu sync.Mutex
	for {
		var r solveReq
		if err := dec.Decode(&r); err != nil {
			return
		}
		go func(r solveReq) {
			var v Verdict
			if r.Second {
				v = solveConfirm(r.Query, time.Duration(r.TimeoutMs)*time.Millisecond)
			} else {
				v = solveLocal(r.Query, time.Duration(r.TimeoutMs)*time.Millisecond, r.Portfolio)
			}
			mu.Lock()
			enc.Encode(solveResp{r.ID, v})
			mu.Unlock()
		}(r)
	}
}

// solveConfirm asks the solvers other than z3-new.
func solveConfirm(query string, timeout time.Duration) Verdict {
	for _, sp := range solvers[1:] {
		st, out, el := runSolver(context.Background(), sp, query, timeout)
		if st == "sat" || st == "unsat" {
			return Verdict{Status: st, Solver: sp.name, Time: el, SMTSize: len(query), Output: out}
		}
	}
	return Verdict{Status: "unknown", Solver: "confirm", SMTSize: len(query)}
}

func solve(name, query string, timeout time.Duration, portfolio bool) Verdict {
	return solveReqDo(name, solveReq{Query: query, TimeoutMs: int(timeout / time.Millisecond), Portfolio: portfolio})
}

func solveReqDo(name string, r solveReq) Verdict {
	if smtDir != "" {
		_ = os.WriteFile(filepath.Join(smtDir, sanitize(name)+".smt2"), []byte(r.Query), 0o644)
	}
	if daemon == nil {
		if r.Second {
			return solveConfirm(r.Query, time.Duration(r.TimeoutMs)*time.Millisecond)
		}
		return solveLocal(r.Query, time.Duration(r.TimeoutMs)*time.Millisecond, r.Portfolio)
	}
	ch := make(chan Verdict, 1)
	daemon.mu.Lock()
	daemon.next++
	r.ID = daemon.next
	daemon.pending[r.ID] = ch
	err := daemon.enc.Encode(r)
	daemon.mu.Unlock()
	if err != nil {
		return Verdict{Status: "error", Output: err.Error()}
	}
	return <-ch
}

func minDur(a, b time.Duration) time.Duration {
	if a < b {
		return a
	}
	return b
}
