package main

// Counterexample replay: a sat model is rendered as an in-package Go test that
// rebuilds the inputs and calls the harness natively (go test -overlay, nothing
// is written to /repo).

import (
	"encoding/json"
	"fmt"
	"go/types"
	"math/big"
	"os"
	"os/exec"
	"path/filepath"
	"regexp"
	"sort"
	"strings"
	"time"

	"golang.org/x/tools/go/ssa"
)

var valRe = regexp.MustCompile(`\(\s*\|?([^|\s()]+)\|?\s+(#x[0-9a-fA-F]+|#b[01]+|true|false)\s*\)`)

func parseValues(out string) map[string]*big.Int {
	res := map[string]*big.Int{}
	for _, m := range valRe.FindAllStringSubmatch(out, -1) {
		v := new(big.Int)
		switch {
		case m[2] == "true":
			v.SetInt64(1)
		case m[2] == "false":
		case strings.HasPrefix(m[2], "#x"):
			v.SetString(m[2][2:], 16)
		default:
			v.SetString(m[2][2:], 2)
		}
		res[m[1]] = v
	}
	return res
}

type ReplayResult struct {
	Attempted  bool
	Reproduced bool
	Path       string
	Note       string
	Output     string
}

// modelQuery builds the failing query plus size bounds and get-value requests.
func (e *Engine) modelQuery(o *Obligation, fn *ssa.Function, capBound int64, fixed map[string]*big.Int, cells []memCell, extra ...*Term) string {
	fs := []*Term{o.hyp, Not(o.goal)}
	ax := e.expandQuantifiers(fs, []*Term{Not(o.goal)})
	p := NewPrinter()
	for _, f := range fs {
		p.Assert(f)
	}
	for _, a := range ax {
		p.Assert(a)
	}
	inits := e.initFactsFor(append(fs, ax...))
	for _, a := range inits {
		p.Assert(a)
	}
	e.literalFacts(p, append(append(fs, ax...), inits...))
	var names []string
	for _, prm := range fn.Params {
		ls := leavesOf(prm.Type())
		ts := namedTerms("arg."+prm.Name(), prm.Type())
		for i, l := range ls {
			names = append(names, p.Ref(ts[i]))
			if l.kind == LCap || (l.kind == LLen && isStringType(l.typ)) {
				p.Assert(BVUle(ts[i], BVConst(capBound, IntSort)))
			}
			if l.kind == LOff {
				p.Assert(BVUle(ts[i], BVConst(64, IntSort)))
			}
		}
	}
	for n, v := range fixed {
		d := TS.ufs[n]
		if d.ret == BoolSort {
			p.Assert(Eq(Var(n, BoolSort), BoolConst(v.Sign() != 0)))
		} else {
			p.Assert(Eq(Var(n, d.ret), BVConstBig(v, d.ret)))
		}
	}
	for _, x := range extra {
		p.Assert(x)
	}
	var sb strings.Builder
	sb.WriteString("(set-option :produce-models true)\n(set-logic QF_UFBV)\n")
	var cellNames []string
	for i, c := range cells {
		r := p.Ref(c.term)
		nm := fmt.Sprintf("mv_%d", i)
		fmt.Fprintf(&p.sb, "(define-fun %s () %s %s)\n", nm, c.term.sort, r)
		cellNames = append(cellNames, nm)
	}
	sb.WriteString(p.String())
	sb.WriteString("(check-sat)\n")
	all := append(names, cellNames...)
	// chunk get-value requests
	for i := 0; i < len(all); i += 200 {
		j := i + 200
		if j > len(all) {
			j = len(all)
		}
		fmt.Fprintf(&sb, "(get-value (%s))\n", strings.Join(all[i:j], " "))
	}
	return sb.String()
}

type memCell struct {
	name string
	term *Term
}

type objNeed struct {
	typ types.Type
	ref uint64
	key string
}

type replayCtx struct {
	needObjs []objNeed
	objVals  map[string]*big.Int // "obj.<type>.<ref>.<leafpath>" -> value
	objNames map[string]string
	nobj     int
	depth    int
	haveObj  map[string]bool
	askedObj map[string]bool
	newNeeds int
	post     []string
	approx   bool // some part of the model state could not be rebuilt (left zero / nil)
	e       *Engine
	vals    map[string]*big.Int
	cells   map[string]*big.Int
	regions map[uint64]int64 // region -> needed size
	imports map[string]bool
	decls   []string
	pkg     *types.Package
	bad     string
	nbuf    int
	bufName map[uint64]string
}

func (rc *replayCtx) leaf(name string) *big.Int {
	if v, ok := rc.vals[name]; ok {
		return v
	}
	return new(big.Int)
}

func signedOf(v *big.Int, w int) *big.Int {
	x := new(big.Int).Set(v)
	if x.Bit(w-1) == 1 {
		x.Sub(x, new(big.Int).Lsh(big.NewInt(1), uint(w)))
	}
	return x
}

func (rc *replayCtx) typeStr(t types.Type) string {
	return types.TypeString(t, func(p *types.Package) string {
		if p == rc.pkg {
			return ""
		}
		rc.imports[p.Path()] = true
		return p.Name()
	})
}

// collectRegions finds, for every slice/string leaf group of the params, the
// region extents to allocate.
func (rc *replayCtx) noteRegion(r uint64, end int64) {
	if r == 0 {
		return
	}
	if end > rc.regions[r] {
		rc.regions[r] = end
	}
	if _, ok := rc.regions[r]; !ok {
		rc.regions[r] = end
	}
}

// expr renders the Go expression for the value with leaf-name prefix `pfx`.
func (rc *replayCtx) expr(pfx string, t types.Type, objMem func(root types.Type, leaf string, ref uint64) *big.Int) string {
	if nt, ok := t.(*types.Named); ok && nt.Obj().Pkg() != nil && nt.Obj().Pkg().Path() == "net/netip" && nt.Obj().Name() == "Addr" {
		rc.imports["net/netip"] = true
		hi := rc.leaf(pfx + ".addr.hi")
		lo := rc.leaf(pfx + ".addr.lo")
		z := rc.leaf(pfx + ".z.value").Uint64()
		switch z {
		case 0:
			return "netip.Addr{}"
		case 0x7fff0004:
			v := lo.Uint64()
			return fmt.Sprintf("netip.AddrFrom4([4]byte{%d, %d, %d, %d})", byte(v>>24), byte(v>>16), byte(v>>8), byte(v))
		case 0x7fff0006:
			h, l := hi.Uint64(), lo.Uint64()
			var bs []string
			for i := 7; i >= 0; i-- {
				bs = append(bs, fmt.Sprint(byte(h>>(8*uint(i)))))
			}
			for i := 7; i >= 0; i-- {
				bs = append(bs, fmt.Sprint(byte(l>>(8*uint(i)))))
			}
			return fmt.Sprintf("netip.AddrFrom16([16]byte{%s})", strings.Join(bs, ", "))
		}
		rc.bad = "netip.Addr with unknown z handle"
		return "netip.Addr{}"
	}
	if nt, ok := t.(*types.Named); ok && nt.Obj().Pkg() != nil && nt.Obj().Pkg().Path() == "net/netip" && nt.Obj().Name() == "Prefix" {
		rc.imports["net/netip"] = true
		st := nt.Underlying().(*types.Struct)
		bp := rc.leaf(pfx + ".bitsPlusOne").Int64()
		if bp == 0 {
			return "netip.Prefix{}"
		}
		ip := rc.expr(pfx+".ip", st.Field(0).Type(), objMem)
		return fmt.Sprintf("netip.PrefixFrom(%s, %d)", ip, bp-1)
	}
	switch u := t.Underlying().(type) {
	case *types.Basic:
		switch {
		case u.Info()&types.IsBoolean != 0:
			return fmt.Sprintf("%s(%v)", rc.typeStr(t), rc.leaf(pfx).Sign() != 0)
		case u.Info()&types.IsString != 0:
			r := rc.leaf(pfx + "$r").Uint64()
			o := rc.leaf(pfx + "$o").Int64()
			l := rc.leaf(pfx + "$l").Int64()
			if l == 0 {
				return fmt.Sprintf("%s(\"\")", rc.typeStr(t))
			}
			rc.noteRegion(r, o+l)
			return fmt.Sprintf("%s(%s[%d:%d])", rc.typeStr(t), rc.buf(r), o, o+l)
		case u.Info()&types.IsInteger != 0:
			w := int(basicSort(u))
			v := rc.leaf(pfx)
			if u.Info()&types.IsUnsigned == 0 {
				v = signedOf(v, w)
			}
			return fmt.Sprintf("%s(%s)", rc.typeStr(t), v.String())
		}
	case *types.Slice:
		if b, ok := u.Elem().Underlying().(*types.Basic); ok && b.Kind() == types.Uint8 {
			r := rc.leaf(pfx + "$r").Uint64()
			o := rc.leaf(pfx + "$o").Int64()
			l := rc.leaf(pfx + "$l").Int64()
			c := rc.leaf(pfx + "$c").Int64()
			if r == 0 {
				return fmt.Sprintf("%s(nil)", rc.typeStr(t))
			}
			rc.noteRegion(r, o+c)
			return fmt.Sprintf("%s(%s[%d:%d:%d])", rc.typeStr(t), rc.buf(r), o, o+l, o+c)
		}
		// slices of other element types: right length and capacity, zero elements
		// (their contents are not reconstructed from the model)
		ln := rc.leaf(pfx + "$l").Int64()
		cp := rc.leaf(pfx + "$c").Int64()
		if rc.leaf(pfx+"$r").Sign() == 0 {
			return fmt.Sprintf("%s(nil)", rc.typeStr(t))
		}
		if cp > 65536 || ln > cp {
			rc.bad = "slice too large to replay"
			return "nil"
		}
		rc.approx = true
		return fmt.Sprintf("make(%s, %d, %d)", rc.typeStr(t), ln, cp)
	case *types.Map:
		// contents are not reconstructed: an empty map when the model's map is not nil
		rc.approx = true
		if rc.leaf(pfx).Sign() == 0 {
			return "nil"
		}
		return fmt.Sprintf("%s{}", rc.typeStr(t))
	case *types.Chan:
		rc.approx = true
		if rc.leaf(pfx).Sign() == 0 {
			return "nil"
		}
		return fmt.Sprintf("make(%s, 16)", rc.typeStr(t))
	case *types.Signature:
		rc.approx = true
		return "nil"
	case *types.Struct:
		var fs []string
		for i := 0; i < u.NumFields(); i++ {
			f := u.Field(i)
			sub := pfx + "." + f.Name()
			fs = append(fs, fmt.Sprintf("%s: %s", f.Name(), rc.expr(sub, f.Type(), objMem)))
			if !f.Exported() && f.Pkg() != rc.pkg {
				rc.bad = "unexported field of another package: " + f.Name()
			}
		}
		return fmt.Sprintf("%s{%s}", rc.typeStr(t), strings.Join(fs, ", "))
	case *types.Array:
		var es []string
		for i := int64(0); i < u.Len(); i++ {
			es = append(es, rc.expr(fmt.Sprintf("%s.[%d]", pfx, i), u.Elem(), objMem))
		}
		return fmt.Sprintf("%s{%s}", rc.typeStr(t), strings.Join(es, ", "))
	case *types.Interface:
		if rc.leaf(pfx+"$t").Sign() == 0 {
			return "nil"
		}
		if types.Identical(t, types.Universe.Lookup("error").Type()) {
			rc.imports["errors"] = true
			return `errors.New("replayed error")`
		}
		if nt, ok := t.(*types.Named); ok && nt.Obj().Pkg() != nil && nt.Obj().Pkg().Path() == "net" && nt.Obj().Name() == "PacketConn" {
			// the connection: a recorder that feeds the native vWireCount / vWireLast / vWireEach
			return "verifConn{}"
		}
	case *types.Pointer:
		if rc.leaf(pfx).Sign() == 0 {
			return "nil"
		}
		if st, ok := u.Elem().Underlying().(*types.Struct); ok && rc.depth < 4 {
			ref := rc.leaf(pfx).Uint64()
			key := fmt.Sprintf("obj.%s.%d", typeKey(u.Elem()), ref)
			if name, ok := rc.objNames[key]; ok {
				return name
			}
			if rc.objVals == nil || !rc.haveObj[key] {
				// record that this object's leaves are needed (fetched in the next round)
				if !rc.askedObj[key] {
					if rc.askedObj == nil {
						rc.askedObj = map[string]bool{}
					}
					rc.askedObj[key] = true
					rc.needObjs = append(rc.needObjs, objNeed{u.Elem(), ref, key})
					rc.newNeeds++
				}
				return "nil"
			}
			rc.nobj++
			name := fmt.Sprintf("obj%d", rc.nobj)
			rc.objNames[key] = name
			rc.depth++
			var fs []string
			for i := 0; i < st.NumFields(); i++ {
				f := st.Field(i)
				if !f.Exported() && f.Pkg() != rc.pkg {
					continue // cannot be set from here: left zero
				}
				if arr, ok := f.Type().Underlying().(*types.Array); ok && arr.Len() > maxValueArray {
					// large embedded array: contents come from its own region
					if b, ok := arr.Elem().Underlying().(*types.Basic); ok && b.Kind() == types.Uint8 {
						lo, _ := fieldRange(u.Elem(), i)
						region := rc.e.fieldRegionConst(u.Elem(), fmt.Sprintf("%s@%d", f.Name(), lo), ref, arr.Len())
						rc.noteRegion(region, arr.Len())
						rc.post = append(rc.post, fmt.Sprintf("\tcopy(%s.%s[:], %s)\n", name, f.Name(), rc.buf(region)))
					}
					continue
				}
				if _, isMutex := f.Type().Underlying().(*types.Struct); isMutex && strings.HasPrefix(typeKey(f.Type()), "sync.") {
					continue
				}
				sub := key + "." + f.Name()
				ex := rc.exprObj(sub, f.Type())
				if rc.bad != "" {
					rc.bad = ""
					continue // leave the field zero
				}
				fs = append(fs, fmt.Sprintf("%s: %s", f.Name(), ex))
			}
			rc.depth--
			rc.decls = append(rc.decls, fmt.Sprintf("\t%s := &%s{%s}\n", name, rc.typeStr(u.Elem()), strings.Join(fs, ", ")))
			return name
		}
	}
	rc.bad = "no replay builder for type " + t.String()
	return "nil"
}

func (rc *replayCtx) buf(r uint64) string {
	if n, ok := rc.bufName[r]; ok {
		return n
	}
	rc.nbuf++
	n := fmt.Sprintf("buf%d", rc.nbuf)
	rc.bufName[r] = n
	return n
}

// leafPath maps namedTerms naming (prefix + "." + path) back; strings and slices use $ suffixes.

func (w *World) replay(res *Result, idx int, outDir string, timeout time.Duration) ReplayResult {
	o := res.Obls[idx]
	e := res.engine
	h := res.Harness
	fn := h.Fn
	rr := ReplayResult{}
	// 1. a small model for the parameters
	var vals map[string]*big.Int
	var solverOut string
	for _, bound := range []int64{128, 2048, 70000} {
		q := e.modelQuery(o, fn, bound, nil, nil)
		st, out, _ := runSolverDaemon(q, timeout)
		if st == "sat" {
			vals = parseValues(out)
			solverOut = out
			break
		}
	}
	if vals == nil {
		rr.Note = "no model within replay size bounds"
		return rr
	}
	pkg := fn.Pkg.Pkg
	rc := &replayCtx{e: e, vals: vals, regions: map[uint64]int64{}, imports: map[string]bool{"testing": true, "fmt": true}, pkg: pkg, bufName: map[uint64]string{}}
	// leaf names: namedTerms uses prefix + "." + path or prefix + path for $-leaves
	fix := map[string]*big.Int{}
	for _, prm := range fn.Params {
		ls := leavesOf(prm.Type())
		ts := namedTerms("arg."+prm.Name(), prm.Type())
		for i := range ls {
			if v, ok := vals[ts[i].name]; ok {
				fix[ts[i].name] = v
			} else {
				fix[ts[i].name] = new(big.Int)
				vals[ts[i].name] = new(big.Int)
			}
		}
	}
	// normalise leaf naming for expr(): it looks names up as pfx+".field" / pfx+"$r"
	norm := map[string]*big.Int{}
	for k, v := range vals {
		norm[strings.ReplaceAll(k, ".$", "$")] = v
	}
	// symbols renamed because the same parameter name exists at another sort
	for _, prm := range fn.Params {
		ls := leavesOf(prm.Type())
		ts := namedTerms("arg."+prm.Name(), prm.Type())
		for i, l := range ls {
			canon := "arg." + prm.Name()
			if l.path != "" {
				canon += "." + l.path
			}
			if v, ok := vals[ts[i].name]; ok {
				norm[strings.ReplaceAll(canon, ".$", "$")] = v
			}
		}
	}
	rc.vals = norm
	var argExprs []string
	for _, prm := range fn.Params {
		argExprs = append(argExprs, rc.expr("arg."+prm.Name(), prm.Type(), nil))
	}
	type fixedCell struct {
		t *Term
		v *big.Int
	}
	var fixedCells []fixedCell
	for round := 0; round < 4 && rc.newNeeds > 0 && rc.bad == ""; round++ {
		if os.Getenv("GOVC_DEBUG_REPLAY") != "" {
			fmt.Fprintf(os.Stderr, "replay round %d: %d objects needed\n", round, len(rc.needObjs))
		}
		rc.newNeeds = 0
		// next pass: fetch the leaves of all pointed-to objects found so far from one model
		var ocells []memCell
		var okeys []string
		var bounds []*Term
		// keep the objects fetched in earlier rounds as they were (the pointers between them
		// must not move when the model is recomputed)
		for _, fc := range fixedCells {
			bounds = append(bounds, Eq(fc.t, BVConstBig(fc.v, fc.t.sort)))
		}
		for _, n := range rc.needObjs {
			for _, l := range leavesOf(n.typ) {
				name := objMemName(n.typ, l)
				m := NewBaseMem(name, objKS, l.sort, "M0."+name)
				t := m.Read([]*Term{BVConstU(n.ref, RefSort)})
				ocells = append(ocells, memCell{term: t})
				if l.kind == LCap || l.kind == LOff {
					bounds = append(bounds, BVUle(t, BVConst(4096, IntSort)))
				}
				p := l.path
				okeys = append(okeys, n.key+"."+strings.ReplaceAll(p, ".$", "$"))
			}
		}
		q := e.modelQuery(o, fn, 1<<40, fix, ocells, bounds...)
		st2, out2, _ := runSolverDaemon(q, timeout)
		if st2 != "sat" {
			rr.Note = "object model query failed: " + st2
			return rr
		}
		mv := parseValues(out2)
		rc.objVals = map[string]*big.Int{}
		fixedCells = fixedCells[:0]
		for i, k := range okeys {
			if v, ok := mv[fmt.Sprintf("mv_%d", i)]; ok {
				rc.objVals[k] = v
				if ocells[i].term.sort != BoolSort {
					fixedCells = append(fixedCells, fixedCell{ocells[i].term, v})
				}
			} else {
				rc.objVals[k] = new(big.Int)
			}
		}
		rc.haveObj = map[string]bool{}
		for _, n := range rc.needObjs {
			rc.haveObj[n.key] = true
		}
		rc.objNames = map[string]string{}
		rc.nobj = 0
		rc.decls = nil
		rc.post = nil
		argExprs = nil
		for _, prm := range fn.Params {
			argExprs = append(argExprs, rc.expr("arg."+prm.Name(), prm.Type(), nil))
		}
	}
	if rc.bad != "" {
		rr.Note = "replay not possible: " + rc.bad
		rr.Output = solverOut
		return rr
	}
	// 2. memory contents of the regions
	var cells []memCell
	type cellRef struct {
		r uint64
		i int64
	}
	var refs []cellRef
	var regs []uint64
	for r := range rc.regions {
		regs = append(regs, r)
	}
	sort.Slice(regs, func(i, j int) bool { return regs[i] < regs[j] })
	total := int64(0)
	for _, r := range regs {
		total += rc.regions[r]
	}
	if total > 200000 {
		rr.Note = "model too large to replay"
		return rr
	}
	base := NewBaseMem(byteMemName, elemKS, 8, "M0."+byteMemName)
	for _, r := range regs {
		for i := int64(0); i < rc.regions[r]; i++ {
			keys := []*Term{BVConstU(r, RegionSort), BVConst(i, IntSort)}
			var t *Term
			if lt, ok := e.litRead(keys); ok {
				t = lt
			} else {
				t = base.Read(keys)
			}
			cells = append(cells, memCell{term: t})
			refs = append(refs, cellRef{r, i})
		}
	}
	content := map[uint64][]byte{}
	for _, r := range regs {
		content[r] = make([]byte, rc.regions[r])
	}
	if len(cells) > 0 {
		q := e.modelQuery(o, fn, 1<<40, fix, cells)
		st, out, _ := runSolverDaemon(q, timeout)
		if st != "sat" {
			rr.Note = "second model query failed: " + st
			return rr
		}
		mv := parseValues(out)
		for i, c := range refs {
			if v, ok := mv[fmt.Sprintf("mv_%d", i)]; ok {
				content[c.r][c.i] = byte(v.Uint64())
			}
		}
	}
	// 3. render the test
	var sb strings.Builder
	fmt.Fprintf(&sb, "//go:build verif\n\n// Replay of obligation %s of harness %s.\n// %s\n// Generated by govc from a solver model; run with:\n//   go test -tags verif -overlay <ov.json> -vet=off -run TestVerifReplay %s\n", o.Name, h.Name, o.Desc, pkg.Path())
	for _, ln := range strings.Split(strings.TrimSpace(solverOut), "\n") {
		if len(ln) > 200 {
			ln = ln[:200] + "..."
		}
		fmt.Fprintf(&sb, "// model: %s\n", ln)
	}
	fmt.Fprintf(&sb, "package %s\n\nimport (\n", pkg.Name())
	var imps []string
	for k := range rc.imports {
		imps = append(imps, k)
	}
	sort.Strings(imps)
	for _, k := range imps {
		fmt.Fprintf(&sb, "\t%q\n", k)
	}
	sb.WriteString(")\n\nfunc TestVerifReplay(t *testing.T) {\n")
	for _, r := range regs {
		var bs []string
		for _, b := range content[r] {
			bs = append(bs, fmt.Sprintf("0x%02x", b))
		}
		fmt.Fprintf(&sb, "\t%s := []byte{%s}\n", rc.buf(r), strings.Join(bs, ", "))
	}
	sb.WriteString("\tdefer func() {\n\t\tr := recover()\n\t\tif r == nil {\n\t\t\tfmt.Println(\"VERIF-REPLAY: no failure\")\n\t\t\treturn\n\t\t}\n")
	sb.WriteString("\t\tif vf, ok := r.(verifFailure); ok && vf.kind == \"requires\" {\n\t\t\tfmt.Println(\"VERIF-REPLAY: precondition not met:\", vf)\n\t\t\treturn\n\t\t}\n")
	sb.WriteString("\t\tfmt.Println(\"VERIF-REPLAY: reproduced:\", r)\n\t}()\n")
	for _, r := range regs {
		fmt.Fprintf(&sb, "\t_ = %s\n", rc.buf(r))
	}
	for _, d := range rc.decls {
		sb.WriteString(d)
	}
	for _, d := range rc.post {
		sb.WriteString(d)
	}
	fmt.Fprintf(&sb, "\t%s(%s)\n}\n", fn.Name(), strings.Join(argExprs, ", "))
	os.MkdirAll(outDir, 0o755)
	path := filepath.Join(outDir, sanitize(h.Name+"."+o.Name)+"_test.go")
	if err := os.WriteFile(path, []byte(sb.String()), 0o644); err != nil {
		rr.Note = err.Error()
		return rr
	}
	rr.Path = path
	rr.Attempted = true
	out, err := runReplayFile(path, pkg.Path())
	rr.Output = out
	if err != nil {
		rr.Note = "replay run failed: " + err.Error()
	}
	rr.Reproduced = strings.Contains(out, "VERIF-REPLAY: reproduced")
	if strings.Contains(out, "VERIF-REPLAY: precondition not met") {
		rr.Note = "model does not satisfy the executable precondition"
	}
	return rr
}

func runSolverDaemon(q string, timeout time.Duration) (string, string, float64) {
	v := solveReqDo("", solveReq{Query: q, TimeoutMs: int(timeout / time.Millisecond), Portfolio: false})
	return v.Status, v.Output, v.Time
}

// runReplayFile executes a replay test against the real code through an overlay.
func runReplayFile(path, pkgPath string) (string, error) {
	rel := strings.TrimPrefix(pkgPath, "github.com/irai/packet")
	dir := filepath.Join(repoDir, rel)
	tmp, err := os.MkdirTemp("", "govc-replay")
	if err != nil {
		return "", err
	}
	defer os.RemoveAll(tmp)
	ov := map[string]map[string]string{"Replace": {filepath.Join(dir, "zz_verif_replay_test.go"): path}}
	b, _ := json.Marshal(ov)
	ovPath := filepath.Join(tmp, "ov.json")
	os.WriteFile(ovPath, b, 0o644)
	cmd := exec.Command("go", "test", "-tags", "verif", "-overlay", ovPath, "-vet=off", "-count=1", "-v", "-timeout", "60s", "-run", "^TestVerifReplay$", ".")
	cmd.Dir = dir
	cmd.Env = append(os.Environ(), "GOFLAGS=-mod=mod", "GOPROXY=off", "GOSUMDB=off", "GOTOOLCHAIN=local")
	out, err := cmd.CombinedOutput()
	s := string(out)
	if strings.Contains(s, "VERIF-REPLAY:") {
		return s, nil
	}
	// a crash outside the deferred handler (fatal error, timeout) is a reproduction too
	if strings.Contains(s, "panic:") || strings.Contains(s, "fatal error:") || strings.Contains(s, "test timed out") {
		return s + "\nVERIF-REPLAY: reproduced: process crashed or hung\n", nil
	}
	return s, err
}

// exprObj renders a field of a heap object: like expr, but leaves come from objVals.
func (rc *replayCtx) exprObj(pfx string, t types.Type) string {
	saved := rc.vals
	rc.vals = rc.objVals
	defer func() { rc.vals = saved }()
	return rc.expr(pfx, t, nil)
}

func (e *Engine) fieldRegionConst(root types.Type, path string, ref uint64, n int64) uint64 {
	t := e.fieldRegion(root, path, BVConstU(ref, RefSort), n)
	return t.val.Uint64()
}
