package main

import (
	"runtime/pprof"
	"flag"
	"math/big"
	"fmt"
	"go/ast"
	"go/types"
	"os"
	"runtime/debug"
	"sort"
	"strings"
	"sync"
	"time"

	"golang.org/x/tools/go/packages"
	"golang.org/x/tools/go/ssa"
	"golang.org/x/tools/go/ssa/ssautil"
)

type Harness struct {
	Name   string
	Kind   string // contract, extern, lemma
	Fn     *ssa.Function
	Target *ssa.Function
	Props  []string
	Pkg    string
	Doc    string
	Timeout time.Duration
}

// trustedCases lists the vTrusted("...") markers of a contract harness: cases whose
// postconditions are used at call sites without having been verified.
func (h *Harness) trustedCases() []string {
	var out []string
	if h.Fn == nil {
		return nil
	}
	for _, b := range h.Fn.Blocks {
		for _, in := range b.Instrs {
			c, ok := in.(*ssa.Call)
			if !ok {
				continue
			}
			f := c.Call.StaticCallee()
			if f == nil || f.Name() != "vTrusted" || len(c.Call.Args) != 1 {
				continue
			}
			msg := "unverified case"
			if k, ok := c.Call.Args[0].(*ssa.Const); ok && k.Value != nil {
				msg = strings.Trim(k.Value.ExactString(), "\"")
			}
			out = append(out, msg)
		}
	}
	return out
}

type World struct {
	prog      *ssa.Program
	pkgs      []*ssa.Package
	harnesses map[string]*Harness
	order     []string
	invs      map[string]*ssa.Function
	decs      map[string]*ssa.Function
	unrolls   map[string]*ssa.Function
	frames    map[string]*ssa.Function
	contracts map[*ssa.Function]*ssa.Function
	loadTime  float64
	init      *initInfo
	trueInv   *ssa.Function
}

// repoDir is /repo for every registered check; VERIF_REPO points the engine at a scratch
// worktree when seeded changes are tried out without touching /repo.
var repoDir = func() string {
	if d := os.Getenv("VERIF_REPO"); d != "" {
		return d
	}
	return "/repo"
}()

func loadWorld(patterns []string, goarch string) (*World, error) {
	start := time.Now()
	env := append(os.Environ(), "GOFLAGS=-mod=mod", "GOPROXY=off", "GOSUMDB=off", "GOTOOLCHAIN=local")
	if goarch != "" {
		env = append(env, "GOARCH="+goarch)
	}
	cfg := &packages.Config{Mode: packages.LoadAllSyntax, Dir: repoDir, BuildFlags: []string{"-tags=verif"}, Env: env}
	pkgs, err := packages.Load(cfg, patterns...)
	if err != nil {
		return nil, err
	}
	var errs []string
	packages.Visit(pkgs, nil, func(p *packages.Package) {
		for _, e := range p.Errors {
			errs = append(errs, e.Error())
		}
	})
	if len(errs) > 0 {
		return nil, fmt.Errorf("load errors:\n%s", strings.Join(errs, "\n"))
	}
	prog, spkgs := ssautil.AllPackages(pkgs, ssa.NaiveForm|ssa.GlobalDebug)
	prog.Build()
	w := &World{prog: prog, harnesses: map[string]*Harness{}, invs: map[string]*ssa.Function{}, decs: map[string]*ssa.Function{},
		unrolls: map[string]*ssa.Function{}, frames: map[string]*ssa.Function{}, contracts: map[*ssa.Function]*ssa.Function{}}
	for _, p := range spkgs {
		if p == nil {
			continue
		}
		w.pkgs = append(w.pkgs, p)
		var names []string
		for n := range p.Members {
			names = append(names, n)
		}
		sort.Strings(names)
		for _, n := range names {
			fn, ok := p.Members[n].(*ssa.Function)
			if !ok || !strings.HasPrefix(n, "verif_") {
				continue
			}
			if n == "verif_true" {
				w.trueInv = fn
			}
			switch {
			case strings.HasPrefix(n, "verif_inv_"):
				w.invs[strings.TrimPrefix(n, "verif_inv_")] = fn
			case strings.HasPrefix(n, "verif_dec_"):
				w.decs[strings.TrimPrefix(n, "verif_dec_")] = fn
			case strings.HasPrefix(n, "verif_frame_"):
				w.frames[strings.TrimPrefix(n, "verif_frame_")] = fn
			case strings.HasPrefix(n, "verif_unroll_"):
				w.unrolls[strings.TrimPrefix(n, "verif_unroll_")] = fn
			case strings.HasPrefix(n, "verif_contract_"), strings.HasPrefix(n, "verif_extern_"), strings.HasPrefix(n, "verif_lemma_"):
				h := &Harness{Name: n, Fn: fn, Pkg: p.Pkg.Path()}
				switch {
				case strings.HasPrefix(n, "verif_contract_"):
					h.Kind = "contract"
				case strings.HasPrefix(n, "verif_extern_"):
					h.Kind = "extern"
				default:
					h.Kind = "lemma"
				}
				if fd, ok := fn.Syntax().(*ast.FuncDecl); ok && fd.Doc != nil {
					h.Doc = fd.Doc.Text()
					for _, c := range fd.Doc.List {
						t := strings.TrimSpace(strings.TrimPrefix(c.Text, "//"))
						if strings.HasPrefix(t, "verif:props") {
							h.Props = strings.Fields(strings.TrimPrefix(t, "verif:props"))
						}
						if strings.HasPrefix(t, "verif:timeout") {
							if d, err := time.ParseDuration(strings.TrimSpace(strings.TrimPrefix(t, "verif:timeout"))); err == nil {
								h.Timeout = d
							}
						}
					}
				}
				if h.Kind != "lemma" {
					suffix := strings.TrimPrefix(strings.TrimPrefix(n, "verif_contract_"), "verif_extern_")
					h.Target = findTarget(fn, suffix)
					if h.Target == nil {
						return nil, fmt.Errorf("contract %s: no call to a function named %s in its body", n, suffix)
					}
					if prev, dup := w.contracts[h.Target]; dup {
						return nil, fmt.Errorf("two contracts for %s: %s and %s", h.Target, prev.Name(), n)
					}
					w.contracts[h.Target] = fn
				}
				w.harnesses[n] = h
				w.order = append(w.order, n)
			}
		}
	}
	w.loadTime = time.Since(start).Seconds()
	return w, nil
}

func findTarget(h *ssa.Function, suffix string) *ssa.Function {
	for _, b := range h.Blocks {
		for _, in := range b.Instrs {
			if c, ok := in.(ssa.CallInstruction); ok {
				if callee := c.Common().StaticCallee(); callee != nil {
					if harnessSuffix(callee) == suffix {
						return callee
					}
				}
			}
		}
	}
	return nil
}

type Result struct {
	Harness     *Harness
	Obls        []*Obligation
	Verdicts    []Verdict
	Err         string
	Warnings    []string
	Assumed     []string
	Inlined     []string
	Contracts   []string
	ExecTime    float64
	engine      *Engine
}

// runHarness symbolically executes one harness and returns its obligations.
func (w *World) runHarness(h *Harness) (res *Result) {
	res = &Result{Harness: h}
	start := time.Now()
	e := NewEngine(w.prog)
	res.engine = e
	e.contracts = w.contracts
	e.invs, e.decs, e.unrolls = w.invs, w.decs, w.unrolls
	e.trueInv = w.trueInv
	e.frames = w.frames
	e.props = h.Props
	e.topPkg = h.Pkg
	e.curTop = h.Name
	defer func() {
		res.ExecTime = time.Since(start).Seconds()
		res.Obls = e.obls
		res.Warnings = e.warnings
		for k := range e.assumedExterns {
			res.Assumed = append(res.Assumed, k)
		}
		sort.Strings(res.Assumed)
		for k := range e.inlined {
			res.Inlined = append(res.Inlined, k)
		}
		sort.Strings(res.Inlined)
		for k := range e.usedContracts {
			res.Contracts = append(res.Contracts, k)
		}
		sort.Strings(res.Contracts)
		if r := recover(); r != nil {
			switch x := r.(type) {
			case unsupported:
				res.Err = x.Error()
			case contractError:
				res.Err = x.Error()
			default:
				res.Err = fmt.Sprintf("internal error: %v\n%s", r, debug.Stack())
			}
		}
	}()
	fn := h.Fn
	ii := w.buildInit()
	st := ii.st.clone()
	st.cells = map[cellKey][]*Term{}
	e.globalsRO = ii.ro
	e.initFacts = ii.facts
	for k, v := range ii.literals {
		e.literals[k] = v
	}
	for k, v := range ii.litByID {
		e.litByID[k] = v
	}
	for k, v := range ii.fieldIDs {
		e.fieldIDs[k] = v
	}
	for k, v := range ii.typeTags {
		e.typeTags[k] = v
	}
	for k, v := range ii.ifaceVals {
		e.ifaceVals[k] = v
	}
	for k, v := range ii.strLitIDs {
		e.strLitIDs[k] = v
	}
	e.allocSeq = ii.allocSeq
	callAllocBase = ii.allocSeq
	litLookup = e.litRead
	// globals that may be written after init are arbitrary at entry
	for name, m := range st.mems {
		if strings.HasPrefix(name, "global:") {
			_ = m
		}
	}
	w.havocMutableGlobals(st, ii)
	fr := e.newFrame(fn, nil)
	fr.spec = true
	fr.hctx = &harnessCtx{mode: modeVerify, target: h.Target, name: h.Name}
	args := make([]Value, len(fn.Params))
	for i, p := range fn.Params {
		ts := namedTerms("arg."+p.Name(), p.Type())
		st.assume(wfAssumptions(ts, p.Type(), false))
		args[i] = e.unflat(ts, p.Type())
	}
	// facts about package-level constants whose initialisers are outside the
	// modelled subset (e.g. netip.MustParseAddr of a literal): trusted, listed
	for _, gp := range w.pkgs {
		gf := gp.Func("verif_global_facts")
		if gf == nil {
			continue
		}
		gfr := e.newFrame(gf, nil)
		gfr.spec = true
		gfr.quiet = true
		tmp := st.clone()
		vals := e.finishCall(gfr, tmp, gfr, nil, nil)
		st.pc = tmp.pc
		st.assume(vals[0].term())
		e.assumedExterns["verif_global_facts of package "+gp.Pkg.Name()+" (values of package-level constants initialised by parsing literals)"] = true
	}
	e.execFunc(fr, args, st)
	if h.Target != nil && !fr.hctx.holeDone {
		res.Err = "contract error: harness never reached the call to its target"
	}
	return res
}

func main() {
	if pf := os.Getenv("GOVC_CPUPROFILE"); pf != "" {
		if f, err := os.Create(pf); err == nil {
			delay, dur := 0, 25
			fmt.Sscanf(os.Getenv("GOVC_CPUPROFILE_WINDOW"), "%d,%d", &delay, &dur)
			go func() {
				time.Sleep(time.Duration(delay) * time.Second)
				pprof.StartCPUProfile(f)
				time.Sleep(time.Duration(dur) * time.Second)
				pprof.StopCPUProfile()
				f.Close()
			}()
		}
	}
	if len(os.Args) < 2 {
		fmt.Fprintln(os.Stderr, "usage: govc run|check|list ...")
		os.Exit(2)
	}
	if os.Args[1] == "solverd" {
		solverDaemonMain()
		return
	}
	startDaemon()
	switch os.Args[1] {
	case "run":
		cmdRun(os.Args[2:])
	case "check":
		os.Exit(cmdCheck(os.Args[2:]))
	case "list":
		cmdList(os.Args[2:])
	case "replay":
		os.Exit(cmdReplay(os.Args[2:]))
	default:
		fmt.Fprintln(os.Stderr, "unknown command")
		os.Exit(2)
	}
}

var allPatterns = []string{"github.com/irai/packet", "github.com/irai/packet/fastlog", "github.com/irai/packet/handlers/arp_spoofer",
	"github.com/irai/packet/handlers/icmp_spoofer", "github.com/irai/packet/handlers/dhcp4_spoofer", "github.com/irai/packet/handlers/dns_naming"}

func cmdList(args []string) {
	w, err := loadWorld(allPatterns, "")
	if err != nil {
		fmt.Fprintln(os.Stderr, err)
		os.Exit(2)
	}
	for _, n := range w.order {
		h := w.harnesses[n]
		t := ""
		if h.Target != nil {
			t = h.Target.String()
		}
		fmt.Printf("%-10s %-50s %v %s\n", h.Kind, n, h.Props, t)
	}
}

func cmdRun(args []string) {
	fs := flag.NewFlagSet("run", flag.ExitOnError)
	fnFlag := fs.String("fn", "", "harness name (substring match)")
	verbose := fs.Bool("v", false, "verbose")
	dump := fs.String("smt", "", "directory to dump SMT files")
	pkgFlag := fs.String("pkg", "", "package patterns (comma separated)")
	timeout := fs.Duration("timeout", 10*time.Second, "solver timeout")
	showModel := fs.Bool("model", false, "print a small model for sat obligations")
	doReplay := fs.Bool("replay", false, "replay sat obligations (other than canaries) on the real code")
	fs.Parse(args)
	smtDir = *dump
	if smtDir != "" {
		os.MkdirAll(smtDir, 0o755)
	}
	pats := allPatterns
	if *pkgFlag != "" {
		pats = strings.Split(*pkgFlag, ",")
	}
	w, err := loadWorld(pats, "")
	if err != nil {
		fmt.Fprintln(os.Stderr, err)
		os.Exit(2)
	}
	fmt.Printf("loaded in %.1fs, %d harnesses\n", w.loadTime, len(w.order))
	bad := 0
	for _, n := range w.order {
		h := w.harnesses[n]
		if h.Kind == "extern" || (*fnFlag != "" && !strings.Contains(n, *fnFlag)) {
			continue
		}
		res := w.runHarness(h)
		to := *timeout
		if h.Timeout > to {
			to = h.Timeout
		}
		solveAll(res, to, true)
		nd := 0
		for i := range res.Obls {
			if isDischarged(res.Obls[i], res.Verdicts[i]) {
				nd++
			}
		}
		fmt.Printf("%s: %d obligations, %d ok, exec %.2fs %s\n", n, len(res.Obls), nd, res.ExecTime, res.Err)
		if res.Err != "" {
			bad++
		}
		for i, o := range res.Obls {
			v := res.Verdicts[i]
			if !isDischarged(o, v) || *verbose {
				fmt.Printf("   %-8s %-60s %s:%d [%s %.2fs %dB] %s\n", v.Status, o.Name, shortFile(o.Pos.Filename), o.Pos.Line, v.Solver, v.Time, v.SMTSize, o.Desc)
				if !isDischarged(o, v) {
					bad++
					if *showModel && v.Status == "sat" {
						w.printModel(res, i)
					}
					if *doReplay && v.Status == "sat" && o.Kind != "canary" {
						rr := w.replay(res, i, "/verif/replays", 30*time.Second)
						fmt.Printf("      replay: reproduced=%v %s %s\n", rr.Reproduced, rr.Path, rr.Note)
					}
				}
			}
		}
		if *verbose {
			for _, x := range res.Warnings {
				fmt.Println("   warning:", x)
			}
			for _, x := range res.Assumed {
				fmt.Println("   assumed:", x)
			}
			fmt.Println("   inlined:", res.Inlined)
			fmt.Println("   contracts used:", res.Contracts)
		}
	}
	if bad > 0 {
		os.Exit(1)
	}
}

func shortFile(f string) string {
	return strings.TrimPrefix(f, repoDir+"/")
}

// isDischarged: canaries are discharged when refuted (sat), everything else when unsat.
func isDischarged(o *Obligation, v Verdict) bool {
	if o.Kind == "canary" {
		return v.Status == "sat"
	}
	return v.Status == "unsat"
}

// solvePar: queries in flight per process (a sharded check divides the cores among its workers).
var solvePar = 10

func solveAll(res *Result, timeout time.Duration, portfolio bool) {
	res.Verdicts = make([]Verdict, len(res.Obls))
	queries := make([]string, len(res.Obls))
	runAllT := func(idx []int, to time.Duration) {
		var wg sync.WaitGroup
		sem := make(chan struct{}, solvePar)
		for _, i := range idx {
			wg.Add(1)
			sem <- struct{}{}
			go func(i int) {
				defer wg.Done()
				defer func() { <-sem }()
				res.Verdicts[i] = solve(res.Harness.Name+"."+res.Obls[i].Name, queries[i], to, portfolio)
			}(i)
		}
		wg.Wait()
	}
	runAll := func(idx []int) { runAllT(idx, timeout) }
	// first pass: the hypotheses relevant to each goal only (a proof from fewer hypotheses is a proof)
	var full []int
	if !noSlice {
		var sliced []int
		for i, o := range res.Obls {
			if o.Kind == "canary" {
				full = append(full, i) // reachability needs every hypothesis
				continue
			}
			h, cut := slicedHyp(o.hyp, o.goal)
			if !cut {
				full = append(full, i)
				continue
			}
			tq := time.Now()
			queries[i] = res.engine.buildQueryFrom(h, o.goal)
			if traceCalls && len(queries[i]) > 10000000 && os.Getenv("GOVC_DUMP_BIG") != "" {
				os.WriteFile(os.Getenv("GOVC_DUMP_BIG"), []byte(queries[i]), 0o644)
				os.Exit(3)
			}
			if traceCalls {
				fmt.Fprintf(os.Stderr, "sliced %s: %d of %d conjuncts, %d bytes, %.2fs\n", o.Name, len(flattenAnd(h, nil)), len(flattenAnd(o.hyp, nil)), len(queries[i]), time.Since(tq).Seconds())
			}
			sliced = append(sliced, i)
		}
		if traceCalls {
			fmt.Fprintf(os.Stderr, "solveAll: %d obligations, %d sliced queries built\n", len(res.Obls), len(sliced))
		}
		// (a short budget: a slice that is not refuted at once is not worth waiting for)
		sto := 5 * time.Second
		if timeout < sto {
			sto = timeout
		}
		runAllT(sliced, sto)
		if traceCalls {
			fmt.Fprintf(os.Stderr, "solveAll: sliced pass done\n")
		}
		for _, i := range sliced {
			if res.Verdicts[i].Status == "unsat" {
				res.Verdicts[i].Solver += "/sliced"
			} else {
				full = append(full, i)
			}
		}
		sort.Ints(full)
	} else {
		for i := range res.Obls {
			full = append(full, i)
		}
	}
	if traceCalls {
		fmt.Fprintf(os.Stderr, "solveAll: %d full queries to build\n", len(full))
	}
	for _, i := range full {
		t0 := res.Verdicts[i].Time
		queries[i] = res.engine.buildQuery(res.Obls[i], nil)
		res.Verdicts[i] = Verdict{Time: t0}
	}
	{
		prev := make([]float64, len(res.Obls))
		for _, i := range full {
			prev[i] = res.Verdicts[i].Time
		}
		runAll(full)
		for _, i := range full {
			res.Verdicts[i].Time += prev[i]
		}
	}
	// an obligation that comes back undecided may only have lost the race for the cores: decide it
	// again on its own with three times the budget before anything is concluded from it
	for i, o := range res.Obls {
		v := res.Verdicts[i]
		if v.Status == "unsat" || v.Status == "sat" || o.Kind == "canary" {
			continue
		}
		r := solve(res.Harness.Name+"."+o.Name, queries[i], 3*timeout, true)
		r.Time += v.Time
		res.Verdicts[i] = r
	}
}

var _ = types.Typ

func (w *World) havocMutableGlobals(st *State, ii *initInfo) {
	ro := map[string]bool{}
	for g := range ii.ro {
		t := g.Type().(*types.Pointer).Elem()
		if ls, ok := tryLeaves(t); ok {
			for _, l := range ls {
				ro[globalMemName(g, l)] = true
			}
		}
	}
	for name, m := range st.mems {
		if strings.HasPrefix(name, "global:") && !ro[name] {
			st.mems[name] = NewBaseMem(name, m.ksort, m.sort, "M0."+name)
		}
	}
}

// cmdReplay re-runs a stored replay test against /repo's working tree.
func cmdReplay(args []string) int {
	if len(args) != 1 {
		fmt.Fprintln(os.Stderr, "usage: govc replay <file>")
		return 2
	}
	b, err := os.ReadFile(args[0])
	if err != nil {
		fmt.Fprintln(os.Stderr, err)
		return 2
	}
	if !strings.HasSuffix(args[0], ".go") {
		fmt.Print(string(b))
		fmt.Println("(this violation has no executable counterexample: the file above names the failed obligation and carries the solver output)")
		return 1
	}
	pkg := ""
	for _, ln := range strings.Split(string(b), "\n") {
		if i := strings.Index(ln, "-run TestVerifReplay "); i >= 0 {
			pkg = strings.TrimSpace(ln[i+len("-run TestVerifReplay "):])
		}
	}
	if pkg == "" {
		fmt.Fprintln(os.Stderr, "cannot find the package path in the replay header")
		return 2
	}
	out, err := runReplayFile(args[0], pkg)
	fmt.Print(out)
	if strings.Contains(out, "VERIF-REPLAY: reproduced") {
		return 1
	}
	if err != nil {
		return 2
	}
	return 0
}

// printModel prints parameter leaves and the bytes of byte-slice parameters of a small model.
func (w *World) printModel(res *Result, idx int) {
	o := res.Obls[idx]
	e := res.engine
	fn := res.Harness.Fn
	var st, out string
	for _, bound := range []int64{128, 2048, 70000} {
		q := e.modelQuery(o, fn, bound, nil, nil)
		st, out, _ = runSolverDaemon(q, 20*time.Second)
		if st == "sat" {
			break
		}
	}
	if st != "sat" {
		fmt.Println("      (no small model:", st, ")")
		return
	}
	vals := parseValues(out)
	var names []string
	for k := range vals {
		names = append(names, k)
	}
	sort.Strings(names)
	fix := map[string]*big.Int{}
	for _, k := range names {
		fmt.Printf("      %s = %#x\n", k, vals[k])
		fix[k] = vals[k]
	}
	base := NewBaseMem(byteMemName, elemKS, 8, "M0."+byteMemName)
	for _, prm := range fn.Params {
		ls := leavesOf(prm.Type())
		ts := namedTerms("arg."+prm.Name(), prm.Type())
		for i, l := range ls {
			if l.kind != LRegion {
				continue
			}
			if _, ok := l.typ.Underlying().(*types.Slice); !ok {
				continue
			}
			r, off, ln := vals[ts[i].name], vals[ts[i+1].name], vals[ts[i+2].name]
			if r == nil || ln == nil || ln.Int64() > 128 {
				if ln != nil {
					ln = big.NewInt(64)
				}
			}
			if r == nil || ln == nil {
				continue
			}
			if off == nil {
				off = new(big.Int)
			}
			var cells []memCell
			for k := int64(0); k < ln.Int64(); k++ {
				cells = append(cells, memCell{term: base.Read([]*Term{BVConstBig(r, RegionSort), BVConst(off.Int64()+k, IntSort)})})
			}
			q2 := e.modelQuery(o, fn, 1<<40, fix, cells)
			st2, out2, _ := runSolverDaemon(q2, 20*time.Second)
			if st2 != "sat" {
				continue
			}
			mv := parseValues(out2)
			var sb strings.Builder
			for k := range cells {
				if v, ok := mv[fmt.Sprintf("mv_%d", k)]; ok {
					fmt.Fprintf(&sb, "%02x ", v.Uint64())
				} else {
					sb.WriteString("?? ")
				}
			}
			fmt.Printf("      bytes of %s: %s\n", ts[i].name, sb.String())
		}
	}
}
