package main

import (
	"time"
	"fmt"
	"go/types"
	"os"
	"sort"
	"strings"

	"golang.org/x/tools/go/ssa"
)

type harnessMode int

const (
	modeNormal harnessMode = iota
	modeVerify             // harness / lemma being verified: requires=assume, ensures=obligation
	modeApply              // contract applied at a call site: requires=obligation, ensures=assume
)

type harnessCtx struct {
	mode     harnessMode
	caller   *Frame          // apply: frame of the call site (obligation naming)
	site     ssa.Instruction // apply: call site
	target   *ssa.Function
	modifies []modClause
	holeDone bool
	entrySeq uint64 // allocation counter when the hole was reached
	pending  []*Term // definitions of the Boolean guards of conditional pins (assumed at the call site)
	holeBlock *ssa.BasicBlock
	holePC   *PC
	pinCond  *Term
	resultVars map[string]bool // fresh leaves of the result of the applied contract
	subst    map[string]*Term  // result leaves pinned by a postcondition
	havocVars map[string]string // fresh value of a havoc'd field -> memory name
	pats     []string
	borrowOK map[int]bool // apply: regions the contract declares it only borrows
	strict   bool
	name     string
}

type modClause struct {
	kind   string // "bytes", "obj", "mem"
	region *Term
	lo, hi *Term
	elem   types.Type
	root   types.Type
	ref    *Term
	path   string
	mem    string
	pats   []string
	fields []string
}

func harnessSuffix(fn *ssa.Function) string {
	n := fnName(fn)
	n = strings.ReplaceAll(n, ".", "_")
	n = strings.ReplaceAll(n, "$", "_")
	return n
}

func (e *Engine) call(fr *Frame, st *State, c *ssa.CallCommon, site ssa.Instruction) []Value {
	args := make([]Value, len(c.Args))
	for i, a := range c.Args {
		args[i] = e.val(fr, a)
	}
	if b, ok := c.Value.(*ssa.Builtin); ok {
		return e.builtin(fr, st, b, c, args, site)
	}
	if c.IsInvoke() {
		recv := e.val(fr, c.Value)
		return e.invoke(fr, st, c, recv, args, site)
	}
	if callee := c.StaticCallee(); callee != nil {
		if _, isClosure := c.Value.(*ssa.MakeClosure); isClosure {
			cl := e.val(fr, c.Value).C
			return e.callClosure(fr, st, cl, args, site)
		}
		return e.callStatic(fr, st, callee, args, site)
	}
	fv := e.val(fr, c.Value)
	if fv.C != nil {
		return e.callClosure(fr, st, fv.C, args, site)
	}
	// unknown function value
	e.assumedExterns["dynamic call "+c.Value.Type().String()+" (assumed total, no effects)"] = true
	return e.havocResults(st, c.Signature(), "dyn")
}

func (e *Engine) callClosure(fr *Frame, st *State, cl *Closure, args []Value, site ssa.Instruction) []Value {
	nf := e.newFrame(cl.fn, fr)
	nf.freevars = cl.bindings
	nf.prefix = fr.prefix
	nf.hctx = nil
	return e.finishCall(fr, st, nf, args, site)
}

func (e *Engine) havocResults(st *State, sig *types.Signature, prefix string) []Value {
	res := sig.Results()
	out := make([]Value, res.Len())
	for i := 0; i < res.Len(); i++ {
		t := res.At(i).Type()
		ts := freshTerms(prefix, t)
		st.assume(wfAssumptions(ts, t, true))
		// results may be regions the callee allocated: reserve a window of ids for them,
		// then nothing allocated later by the caller can be confused with a result
		e.allocSeq += 16
		e.assumeNotFuture(st, ts, t)
		out[i] = e.unflat(ts, t)
	}
	return out
}

// externResults: the arbitrary results of an abstracted function outside the repository. When a
// buffer is on loan (vBorrowed) the byte slices / strings it returns are taken to be nil, memory
// it allocated, or (parts of) memory reachable from its own byte-slice / string arguments: it
// cannot hand out a view of a buffer it was never given.
func (e *Engine) externResults(st *State, callee *ssa.Function, args []Value, prefix string) []Value {
	seq0 := e.allocSeq
	out := e.havocResults(st, callee.Signature, prefix)
	if len(e.borrowed) == 0 {
		e.pureExternResults(st, callee, args, out, seq0)
		return out
	}
	var argRegions []*Term
	ps := callee.Signature.Params()
	off := 0
	if callee.Signature.Recv() != nil {
		off = 1
	}
	for i, a := range args {
		var t types.Type
		switch {
		case off == 1 && i == 0:
			t = callee.Signature.Recv().Type()
		case i-off < ps.Len():
			t = ps.At(i - off).Type()
		default:
			continue
		}
		fl, ok := e.tryFlat(a, t)
		if !ok {
			continue
		}
		for j, l := range leavesOf(t) {
			if l.kind == LRegion && j < len(fl) {
				argRegions = append(argRegions, fl[j])
			}
		}
	}
	res := callee.Signature.Results()
	for i := 0; i < res.Len(); i++ {
		t := res.At(i).Type()
		fl, ok := e.tryFlat(out[i], t)
		if !ok {
			continue
		}
		for j, l := range leavesOf(t) {
			if l.kind != LRegion || j >= len(fl) || !byteView(l.typ) {
				continue
			}
			alts := []*Term{Eq(fl[j], BVConst(0, RegionSort)), BVUlt(BVConstU(0xF000000000000000+seq0, RegionSort), fl[j])}
			for _, ar := range argRegions {
				alts = append(alts, Eq(fl[j], ar))
			}
			st.assume(Or(alts...))
		}
	}
	e.assumedExterns["results of abstracted external functions are nil, newly allocated, or memory reachable from their slice/string arguments (used for the vBorrowed checks)"] = true
	return out
}

// valueLike: a parameter type through which a callee cannot reach heap objects of the caller other
// than the bytes of slices / strings passed directly (scalars, strings, slices and arrays of
// scalars, the value types of net/netip).
func valueLike(t types.Type) bool {
	if nt, ok := t.(*types.Named); ok && nt.Obj().Pkg() != nil && nt.Obj().Pkg().Path() == "net/netip" {
		return true
	}
	switch u := t.Underlying().(type) {
	case *types.Basic:
		return true
	case *types.Slice:
		_, ok := u.Elem().Underlying().(*types.Basic)
		return ok
	case *types.Array:
		return valueLike(u.Elem())
	case *types.Struct:
		for i := 0; i < u.NumFields(); i++ {
			if !valueLike(u.Field(i).Type()) {
				return false
			}
		}
		return true
	}
	return false
}

// pureExternResults: an abstracted function outside the repository whose parameters are all
// value-like cannot return a view of memory the verified code allocated itself and did not pass
// to it: its byte-slice / string results are nil, literals, pre-existing memory, memory it
// allocates, or (parts of) its own slice / string arguments.
func (e *Engine) pureExternResults(st *State, callee *ssa.Function, args []Value, out []Value, seq0 uint64) {
	sig := callee.Signature
	if sig.Recv() != nil && !valueLike(sig.Recv().Type()) {
		return
	}
	ps := sig.Params()
	for i := 0; i < ps.Len(); i++ {
		if !valueLike(ps.At(i).Type()) {
			return
		}
	}
	var argRegions []*Term
	off := 0
	if sig.Recv() != nil {
		off = 1
	}
	for i, a := range args {
		var t types.Type
		switch {
		case off == 1 && i == 0:
			t = sig.Recv().Type()
		case i-off < ps.Len():
			t = ps.At(i - off).Type()
		default:
			continue
		}
		fl, ok := e.tryFlat(a, t)
		if !ok {
			return
		}
		for j, l := range leavesOf(t) {
			if l.kind == LRegion && j < len(fl) {
				argRegions = append(argRegions, fl[j])
			}
		}
	}
	res := sig.Results()
	did := false
	for i := 0; i < res.Len(); i++ {
		t := res.At(i).Type()
		fl, ok := e.tryFlat(out[i], t)
		if !ok {
			continue
		}
		for j, l := range leavesOf(t) {
			if l.kind != LRegion || j >= len(fl) || !byteView(l.typ) || fl[j].op != "var" {
				continue
			}
			r := fl[j]
			// not (allocated by the verified code before the call) unless it is one of the arguments
			old := And(Eq(regionNibble(r), BVConst(0xF, 4)), BVUle(r, BVConstU(0xF000000000000000+seq0, RegionSort)), BVUlt(BVConstU(0xF000000000000000+callAllocBase, RegionSort), r))
			alts := []*Term{Not(old)}
			for _, ar := range argRegions {
				alts = append(alts, Eq(r, ar))
			}
			st.assume(Or(alts...))
			regionExtern[r.id] = externRegionInfo{seq0: seq0, args: argRegions}
			did = true
		}
	}
	if did {
		e.assumedExterns["byte-slice / string results of abstracted external functions with value parameters only are not views of memory the verified code allocated itself, unless passed as an argument"] = true
	}
}

// finishCall executes a callee frame inline and merges its return points into st.
var traceCalls = os.Getenv("GOVC_TRACE_CALLS") != ""

func (e *Engine) finishCall(fr *Frame, st *State, nf *Frame, args []Value, site ssa.Instruction) []Value {
	if traceCalls {
		t0 := time.Now()
		rc0, ri0, rt0 := readCalls, readIters, readTop
		defer func() {
			if time.Since(t0).Seconds() > 1 {
				fmt.Fprintf(os.Stderr, "spawn ite=%d copy=%d merge=%d\n", spawnIte, spawnCopy, spawnMerge)
				fmt.Fprintf(os.Stderr, "reads in %s: top=%d calls=%d iters=%d hits=%d kinds=%v terms=%d\n", fnName(nf.fn), readTop-rt0, readCalls-rc0, readIters-ri0, readHits, readKinds, TS.next)
			}
		}()
		fmt.Fprintf(os.Stderr, "%*senter %s\n", len(e.stack), "", fnName(nf.fn))
		defer func() {
			n := 0
			if m := st.mems[byteMemName]; m != nil {
				seen := map[*Mem]bool{}
				var walk func(x *Mem)
				walk = func(x *Mem) {
					if x == nil || seen[x] {
						return
					}
					seen[x] = true
					walk(x.prev)
					walk(x.a)
					walk(x.b)
					walk(x.src)
				}
				walk(m)
				n = len(seen)
				if os.Getenv("GOVC_TRACE_KINDS") != "" && time.Since(t0).Seconds() > 1 {
					hist := map[string]int{}
					for x := range seen {
						k := fmt.Sprint(x.kind)
						var r *Term
						switch x.kind {
						case MWrite:
							if len(x.keys) == 2 {
								r = x.keys[0]
							}
						case MCopy, MFill, MHavoc:
							r = x.region
						}
						if r != nil {
							if r.IsConst() {
								k += fmt.Sprintf("/const%x", r.val.Uint64()>>60)
							} else {
								k += "/" + r.op
							}
						}
						hist[k]++
					}
					fmt.Fprintf(os.Stderr, "kinds: %v\n", hist)
				}
			}
			fmt.Fprintf(os.Stderr, "%*sleave %s %.2fs bytemem-nodes=%d\n", len(e.stack), "", fnName(nf.fn), time.Since(t0).Seconds(), n)
		}()
	}
	rets := e.execFunc(nf, args, st.clone())
	var live []retPoint
	for _, r := range rets {
		if !r.st.dead {
			live = append(live, r)
		}
	}
	if len(live) == 0 {
		st.kill()
		return e.zeroResults(nf.fn.Signature)
	}
	sts := make([]*State, len(live))
	for i, r := range live {
		sts[i] = r.st
	}
	m, conds := mergeStates(sts)
	res := nf.fn.Signature.Results()
	vals := make([]Value, res.Len())
	for k := 0; k < res.Len(); k++ {
		t := res.At(k).Type()
		acc := live[len(live)-1].vals[k]
		for i := len(live) - 2; i >= 0; i-- {
			acc = e.iteValue(conds[i], live[i].vals[k], acc, t)
		}
		vals[k] = acc
	}
	// stack arrays of the callee are dead now: drop their writes from the chains
	if len(nf.localRegions) > 0 {
		dead := map[uint64]bool{}
		for _, r := range nf.localRegions {
			dead[r] = true
		}
		for name, mm := range m.mems {
			if len(mm.ksort) == 2 {
				m.mems[name] = stripRegions(mm, dead, nf.firstMemID-64, map[*Mem]*Mem{})
			}
		}
	}
	// drop the callee's cells
	for k := range m.cells {
		if k.frame == nf.id {
			delete(m.cells, k)
		}
	}
	*st = *m
	return vals
}

func (e *Engine) zeroResults(sig *types.Signature) []Value {
	res := sig.Results()
	out := make([]Value, res.Len())
	for i := 0; i < res.Len(); i++ {
		out[i] = e.unflat(zeroTerms(res.At(i).Type()), res.At(i).Type())
	}
	return out
}

func isVerifFunc(fn *ssa.Function) bool {
	n := intrinsicName(fn)
	return strings.HasPrefix(n, "verif_") || strings.HasPrefix(n, "spec_") || (len(n) > 1 && n[0] == 'v' && n[1] >= 'A' && n[1] <= 'Z' && intrinsicNames[n])
}

var intrinsicNames = map[string]bool{
	"vRequires": true, "vEnsures": true, "vAssert": true, "vAssume": true, "vForall": true, "vExists": true,
	"vSameRegion": true, "vOffset": true, "vModifiesBytes": true, "vModifiesAll": true, "vFresh": true,
	"vCanary": true, "vAllocs": true, "vUnreachable": true, "vModifiesObj": true, "vNoAlias": true, "vOpaque": true,
	"vModifiesNothing": true, "vBorrowed": true, "vIsFreshRegion": true, "vModifiesHeap": true, "vStrictLen": true, "vAtEntry": true, "vKeptOrNew": true, "vWireCount": true, "vWireLast": true, "vModifiesWire": true, "vFuel": true, "vModifiesMems": true, "vReveal": true, "vModifiesField": true, "vMapAll": true, "vWireEach": true, "vSpawned": true, "vTrusted": true, "vModifiesElems": true, "vModifiesMap": true, "vFreshMap": true, "vRangeSeen": true,
}

// intrinsicName: the name of an intrinsic, with generic instantiations mapped to their origin.
func intrinsicName(fn *ssa.Function) string {
	if o := fn.Origin(); o != nil {
		return o.Name()
	}
	return fn.Name()
}

func (e *Engine) callStatic(fr *Frame, st *State, callee *ssa.Function, args []Value, site ssa.Instruction) []Value {
	name := intrinsicName(callee)
	if e.lenient && name == "init" && callee.Signature.Recv() == nil && callee.Parent() == nil && callee.Pkg != e.initPkg {
		return nil
	}
	if intrinsicNames[name] && (callee.Pkg != nil || callee.Origin() != nil) {
		return e.intrinsic(fr, st, callee, args, site)
	}
	// hole of the harness being verified: inline the real body
	if h := fr.hctx; h != nil && h.target == callee && !h.holeDone {
		h.holeDone = true
		h.entrySeq = e.allocSeq
		switch h.mode {
		case modeVerify:
			nf := e.newFrame(callee, fr)
			nf.spec = false
			nf.quiet = false
			nf.prefix = ""
			nf.hctx = nil
			saved := e.strict
			e.strict = h.strict
			entry := map[string]*Mem{}
			for k, v := range st.mems {
				entry[k] = v
			}
			entrySeq := e.allocSeq
			r := e.finishCall(fr, st, nf, args, site)
			e.strict = saved
			e.frameObligations(fr, st, entry, entrySeq, h, site)
			return r
		case modeApply:
			e.applyModifies(st, h)
			// the callee may allocate: the allocation counter is only known to have grown
			// (a contract that states vAllocs() afterwards pins it)
			if g, ok := st.ghost["allocs"]; ok {
				ng := FreshVar("allocs", 64)
				st.assume(BVUle(g, ng))
				st.ghost["allocs"] = ng
			}
			h.holeBlock = site.Block()
			h.holePC = st.pc
			res := e.havocResults(st, callee.Signature, "ret."+harnessSuffix(callee))
			h.resultVars = map[string]bool{}
			for _, v := range res {
				for _, t := range v.T {
					if t.op == "var" {
						h.resultVars[t.name] = true
					}
				}
			}
			return res
		}
	}
	if ext := e.extern(fr, st, callee, args, site); ext != nil {
		return ext
	}
	if strings.HasPrefix(name, "verif_lemma_") {
		// lemma application: its requires become obligations here, its conclusions are assumed
		nf := e.newFrame(callee, fr)
		nf.spec = true
		nf.quiet = true
		nf.prefix = fr.prefix
		nf.hctx = &harnessCtx{mode: modeApply, caller: fr, site: site, name: callee.Name()}
		e.usedLemmas[callee.Name()] = true
		return e.finishCall(fr, st, nf, args, site)
	}
	if callee.Pkg != nil && callee.Pkg.Pkg.Path() == "github.com/irai/packet/fastlog" && e.topPkg != "github.com/irai/packet/fastlog" && !e.inlineFastlog {
		if pol := e.abstractPolicy(fr, callee); pol != "" {
			e.assumedExterns[pol] = true
			return e.havocResults(st, callee.Signature, "abs."+callee.Name())
		}
	}
	if hn, ok := e.contracts[callee]; ok && !fr.inlineContracts {
		return e.applyContract(fr, st, hn, callee, args, site)
	}
	if e.isRecursiveSpec(callee) {
		return e.applySpecUF(fr, st, callee, args, site)
	}
	if callee.Blocks == nil {
		e.assumedExterns[callee.String()+" (no Go body: assumed total, no effects, arbitrary result)"] = true
		return e.externResults(st, callee, args, "ext."+callee.Name())
	}
	if pol := e.abstractPolicy(fr, callee); pol != "" {
		e.assumedExterns[pol] = true
		return e.externResults(st, callee, args, "abs."+callee.Name())
	}
	nf := e.newFrame(callee, fr)
	nf.prefix = fr.prefix
	if strings.HasPrefix(callee.Name(), "spec_") || strings.HasPrefix(callee.Name(), "verif_") || strings.HasPrefix(callee.Name(), "VerifSpec") {
		nf.spec = true
	} else {
		if fr.fn != nil && !strings.HasPrefix(fr.fn.Name(), "verif_") && !strings.HasPrefix(fr.fn.Name(), "spec_") {
			nf.prefix = fr.prefix + fnName(fr.fn) + ">"
		}
		if !fr.spec || fr.hctx != nil {
			nf.spec = false
		}
		e.inlined[fnName(callee)] = true
	}
	nf.hctx = nil
	return e.finishCall(fr, st, nf, args, site)
}

// abstractPolicy names calls that are abstracted rather than inlined.
func (e *Engine) abstractPolicy(fr *Frame, callee *ssa.Function) string {
	if callee.Pkg == nil {
		return ""
	}
	from := e.topPkg
	to := callee.Pkg.Pkg.Path()
	if to == "github.com/irai/packet/fastlog" && from != to && !e.inlineFastlog {
		return "calls into package fastlog from other packages are abstracted (total, no effect on the caller's state); fastlog's own safety is C20"
	}
	if strings.HasPrefix(to, "github.com/irai/packet") {
		return ""
	}
	switch to {
	case "net/netip":
		// text conversion and parsing: loops over digits, irrelevant to the modelled state
		switch callee.Name() {
		case "String", "AppendTo", "MarshalText", "MarshalBinary", "appendTo4", "appendTo6", "string4", "string6", "StringExpanded",
			"ParseAddr", "MustParseAddr", "ParsePrefix", "MustParsePrefix", "ParseAddrPort", "MustParseAddrPort", "parseIPv4", "parseIPv6", "Zone", "WithZone":
			return fmt.Sprintf("%s.%s abstracted (text conversion: assumed total, arbitrary result)", to, fnName2(callee))
		}
		return ""
	case "encoding/binary", "math/bits", "internal/byteorder":
		return ""
	}
	return fmt.Sprintf("%s.%s abstracted (outside the repository: assumed total, no effect on modelled state, arbitrary result)", to, fnName2(callee))
}

func fnName2(fn *ssa.Function) string {
	if recv := fn.Signature.Recv(); recv != nil {
		return "(" + types.TypeString(recv.Type(), func(*types.Package) string { return "" }) + ")." + fn.Name()
	}
	return fn.Name()
}

// ---------- contracts ----------

func (e *Engine) applyContract(fr *Frame, st *State, harness, target *ssa.Function, args []Value, site ssa.Instruction) []Value {
	e.usedContracts[fnName(target)] = true
	nf := e.newFrame(harness, fr)
	nf.spec = true
	nf.quiet = true
	nf.prefix = fr.prefix
	hc := &harnessCtx{mode: modeApply, caller: fr, site: site, target: target, name: harness.Name()}
	nf.hctx = hc
	// extra parameters of a contract harness are universally quantified inputs ("for every other
	// key ..."): at a call site they are arbitrary
	for i := len(args); i < len(harness.Params); i++ {
		t := harness.Params[i].Type()
		ts := freshTerms("contract.extra", t)
		st.assume(wfAssumptions(ts, t, false))
		args = append(args[:len(args):len(args)], e.unflat(ts, t))
	}
	var wireBefore *Term
	if e.wireEach != nil {
		wireBefore = e.ghostGet(st, "wire.count", IntSort)
	}
	vals := e.finishCall(fr, st, nf, args, site)
	for _, d := range hc.pending {
		st.assume(d)
	}
	// a borrowed buffer handed to a callee whose contract does not say it only borrows it. A
	// contract whose frame is byte ranges and the wire only (proved when the callee is verified)
	// cannot store a slice header anywhere that outlives the call.
	retains := false
	for _, m := range hc.modifies {
		switch m.kind {
		case "obj", "heap", "mems", "all", "map":
			retains = true
		}
	}
	if len(e.borrowed) > 0 && !fr.spec && retains {
		for ai, a := range args {
			if ai >= len(target.Params) {
				break
			}
			pt := target.Params[ai].Type()
			fl, ok := e.tryFlat(a, pt)
			if !ok {
				continue
			}
			for i, l := range leavesOf(pt) {
				if l.kind != LRegion || i >= len(fl) || hc.borrowOK[fl[i].id] || !byteView(l.typ) {
					continue
				}
				for _, b := range e.borrowed {
					if EqOff(fl[i], b) == False || regionCannotBe(fl[i], b) {
						continue
					}
					goal := Neq(fl[i], b)
					if i+2 < len(fl) {
						goal = Or(goal, Eq(fl[i+2], BVConst(0, IntSort)))
					}
					e.oblige(fr, st, "borrow-pass", site, goal, "a view of the borrowed buffer is passed to "+fnName(target)+", whose contract does not declare the parameter borrowed")
				}
			}
		}
	}
	if wireBefore != nil {
		for _, m := range hc.modifies {
			if m.kind == "wire" || m.kind == "all" {
				e.checkWireEach(fr, st, wireBefore, site)
				break
			}
		}
	}
	// results pinned by the postcondition (r.off == p.off, len(r) == 20+len(b), ...)
	// are replaced by the pinning term, so that later address arithmetic is syntactic
	if len(hc.subst) > 0 {
		for i := range vals {
			if vals[i].T == nil {
				continue
			}
			nt := make([]*Term, len(vals[i].T))
			for j, t := range vals[i].T {
				for pass := 0; pass < 3; pass++ {
					t = Subst(t, hc.subst)
				}
				nt[j] = t
			}
			rt := target.Signature.Results().At(i).Type()
			nv := e.unflat(nt, rt)
			nv.C = vals[i].C
			vals[i] = nv
		}
	}
	return vals
}

func (e *Engine) applyModifies(st *State, h *harnessCtx) {
	for _, m := range h.modifies {
		switch m.kind {
		case "bytes":
			for _, l := range leavesOf(m.elem) {
				name := elemMemName(m.elem, l)
				st.mems[name] = e.mem(st, name, elemKS, l.sort).HavocRange(m.region, m.lo, m.hi)
			}
		case "obj":
			ls := leavesOf(m.root)
			for _, l := range ls {
				if !m.coversLeaf(l.path) {
					continue
				}
				name := objMemName(m.root, l)
				v := FreshVar("hv."+name, l.sort)
				st.mems[name] = e.mem(st, name, objKS, l.sort).Write([]*Term{m.ref}, v)
				if h.havocVars == nil {
					h.havocVars = map[string]string{}
				}
				h.havocVars[v.name] = name
			}
		case "map":
			// the entries (and the length) of this one map
			dom, ln, vals := mapMemNames(m.root)
			for _, name := range append([]string{dom, ln}, vals...) {
				mm, ok := st.mems[name]
				if !ok {
					shape, ok2 := memShapes[name]
					if !ok2 {
						continue
					}
					mm = NewBaseMem(name, shape.ks, shape.s, "M0."+name)
				}
				if writeLog != nil {
					writeLog(name, m.ref)
				}
				st.mems[name] = mm.HavocRegions([]*Term{m.ref})
			}
		case "mems":
			for name, mm := range st.mems {
				match := false
				for _, p := range m.pats {
					if strings.Contains(name, p) {
						match = true
					}
				}
				if !match {
					continue
				}
				if writeLog != nil {
					writeLog(name, nil)
				}
				st.mems[name] = NewBaseMem(name, mm.ksort, mm.sort, FreshName("M."+name))
			}
			// memories not touched yet are bases already: reading them later yields M0, which is
			// only sound if they are given a fresh base too
			for name := range memShapes {
				if _, ok := st.mems[name]; ok {
					continue
				}
				for _, p := range m.pats {
					if strings.Contains(name, p) {
						ks, so := e.memShape(name)
						st.mems[name] = NewBaseMem(name, ks, so, FreshName("M."+name))
					}
				}
			}
			h.pats = append(h.pats, m.pats...)
		case "wire":
			n := e.ghostGet(st, "wire.count", IntSort)
			nn := FreshVar("wire.count", IntSort)
			st.assume(BVSle(n, nn))
			st.ghost["wire.count"] = nn
			wr := FreshVar("wire.r", RegionSort)
			wo := FreshVar("wire.o", IntSort)
			// the frame was sent during the call: its buffer is not one allocated later, offsets are sane
			e.allocSeq += 16
			regionNotAfter[wr.id] = e.allocSeq
			st.assume(And(BVUle(wr, BVConstU(0xF000000000000000+e.allocSeq, RegionSort)), BVUlt(wo, BVConstU(1<<48, IntSort))))
			st.ghost["wire.r"] = wr
			st.ghost["wire.o"] = wo
			wl := FreshVar("wire.l", IntSort)
			st.assume(And(BVSle(BVConst(0, IntSort), wl), BVSlt(wl, BVConstU(1<<48, IntSort))))
			st.ghost["wire.l"] = wl
		case "heap":
			if writeLog != nil {
				writeLog("*heap", nil)
			}
			for name, mm := range st.mems {
				if strings.HasPrefix(name, "global:") && !strings.Contains(name, "packet.icmpTable") {
					continue
				}
				if len(mm.ksort) == 2 && strings.HasPrefix(name, "elem:uint8/") {
					st.mems[name] = mm.HavocFresh(e.allocSeq)
					continue
				}
				st.mems[name] = NewBaseMem(name, mm.ksort, mm.sort, FreshName("M."+name))
			}
			e.heapHavocs++
		case "all":
			if writeLog != nil {
				writeLog("*", nil)
			}
			for name, mm := range st.mems {
				if strings.HasPrefix(name, "global:") {
					continue
				}
				st.mems[name] = NewBaseMem(name, mm.ksort, mm.sort, FreshName("M."+name))
			}
		}
	}
}

// ---------- intrinsics ----------

func (e *Engine) intrinsic(fr *Frame, st *State, callee *ssa.Function, args []Value, site ssa.Instruction) []Value {
	h := fr.hctx
	name := intrinsicName(callee)
	switch name {
	case "vMapAll":
		return []Value{scalar(e.mapQuantifier(fr, st, args, site, site.(ssa.CallInstruction).Common().Args[0].Type()))}
	case "vRequires":
		c := args[0].term()
		if h != nil && h.mode == modeApply {
			// obligation at the call site, in the caller's name
			e.obligeAt(h.caller, st, "requires", h.site, c, "precondition of "+strings.TrimPrefix(strings.TrimPrefix(h.name, "verif_contract_"), "verif_extern_"))
			return nil
		}
		st.assume(c)
		return nil
	case "vEnsures", "vAssert":
		c := args[0].term()
		if h != nil && h.mode == modeApply {
			// pinning is only sound for postconditions stated on every path after the call
			if h.holeBlock != nil && (postDominates(site.Block(), h.holeBlock) || pcBranchFree(st.pc, h.holePC) || e.onlyFeasibleBranch(st, h)) {
				h.pinCond = True
			} else {
				h.pinCond = nil // postcondition stated on some paths only: nothing is pinned
			}
			if h.holeBlock != nil && h.pinCond == nil {
				// Stated behind ONE branch on a result (if r == nil { return }): the results are
				// pinned under a fresh Boolean standing for that branch condition, which is defined
				// for the call site as a whole.
				var bc []*Term
				okb := true
				for x := st.pc; x != nil && x != h.holePC; x = x.parent {
					if x.depth < h.holePC.depth {
						okb = false
						break
					}
					if x.branch {
						bc = append(bc, x.fact)
					}
				}
				if okb && len(bc) == 1 {
					g := bc[0]
					var v, c0 *Term
					if g.op == "not" && g.args[0].op == "=" {
						a, b := g.args[0].args[0], g.args[0].args[1]
						if a.op == "var" && h.resultVars[a.name] && b.IsConst() {
							v, c0 = a, b
						} else if b.op == "var" && h.resultVars[b.name] && a.IsConst() {
							v, c0 = b, a
						}
					}
					if v != nil && v.sort == RegionSort {
						if _, done := h.subst[v.name]; !done {
							saved := h.subst
							local := map[string]*Term{}
							h.subst = local
							h.pinCond = True
							pinned := e.pinResults(h, c)
							h.pinCond = nil
							h.subst = saved
							if pinned && local[v.name] != nil {
								bv := FreshVar("pinbranch", BoolSort)
								h.pending = append(h.pending, Eq(bv, g))
								if h.subst == nil {
									h.subst = map[string]*Term{}
								}
								for name, t := range local {
									if _, done := h.subst[name]; done {
										continue
									}
									if name == v.name {
										h.subst[name] = Ite(bv, t, c0)
									} else {
										h.subst[name] = Ite(bv, t, Var(name, t.sort))
									}
								}
								// on this path the branch was taken: its own cells see the plain terms
								for ck, cv := range st.cells {
									if ck.frame != fr.id {
										continue
									}
									changed := false
									nt := make([]*Term, len(cv))
									for j, t := range cv {
										nt[j] = Subst(t, local)
										if nt[j] != t {
											changed = true
										}
									}
									if changed {
										st.cells[ck] = nt
									}
								}
							}
						}
					}
				}
				// stated on this path only: the equalities it gives are used for the rest of THIS
				// path (its own variable cells), never for the results handed back to the caller
				saved := h.subst
				local := map[string]*Term{}
				for k, v := range saved {
					local[k] = v
				}
				h.subst = local
				h.pinCond = True
				pinned := e.pinResults(h, c)
				h.pinCond = nil
				h.subst = saved
				if pinned {
					for ck, cv := range st.cells {
						if ck.frame != fr.id {
							continue
						}
						changed := false
						nt := make([]*Term, len(cv))
						for j, t := range cv {
							nt[j] = Subst(t, local)
							if nt[j] != t {
								changed = true
							}
						}
						if changed {
							st.cells[ck] = nt
						}
					}
				}
			}
			if h.holeBlock != nil && h.pinCond == True {
				if h.pinCond == True {
					e.refineHavoc(st, h, c)
				}
				if e.pinResults(h, c) {
					// later harness code sees the pinned terms as well
					for k, v := range fr.regs {
						if len(v.T) == 0 {
							continue
						}
						changed := false
						nt := make([]*Term, len(v.T))
						for j, t := range v.T {
							nt[j] = Subst(t, h.subst)
							if nt[j] != t {
								changed = true
							}
						}
						if changed {
							nv := Value{T: nt, C: v.C}
							if v.A != nil {
								nv = e.unflat(nt, k.Type())
							}
							fr.regs[k] = nv
						}
					}
					for ck, cv := range st.cells {
						if ck.frame != fr.id {
							continue
						}
						changed := false
						nt := make([]*Term, len(cv))
						for j, t := range cv {
							nt[j] = Subst(t, h.subst)
							if nt[j] != t {
								changed = true
							}
						}
						if changed {
							st.cells[ck] = nt
						}
					}
				}
			}
			st.assume(c)
			return nil
		}
		kind := "ensures"
		if name == "vAssert" {
			kind = "assert"
		}
		sq, ss := fr.quiet, fr.spec
		fr.spec = false
		e.forceOrdinal = siteOrdinal(fr.fn, site, name)
		e.oblige(fr, st, kind, site, c, kind+" in "+fr.fn.Name())
		e.forceOrdinal = 0
		fr.quiet, fr.spec = sq, ss
		return nil
	case "vAssume":
		e.assumedExterns["vAssume in "+fr.fn.Name()] = true
		st.assume(args[0].term())
		return nil
	case "vCanary":
		// must-fail obligation: proves the hypotheses in force here are satisfiable
		if h != nil && h.mode == modeApply {
			return nil
		}
		sq, ss := fr.quiet, fr.spec
		fr.spec = false
		e.obligeKind(fr, st, "canary", site, False, "canary (must be refutable)")
		fr.quiet, fr.spec = sq, ss
		return nil
	case "vUnreachable":
		sq, ss := fr.quiet, fr.spec
		fr.spec = false
		e.oblige(fr, st, "unreachable", site, False, "vUnreachable reached")
		fr.quiet, fr.spec = sq, ss
		return nil
	case "vSameRegion":
		a, b := args[0].T, args[1].T
		return []Value{scalar(Eq(a[0], b[0]))}
	case "vOffset":
		a, b := args[0].T, args[1].T
		return []Value{scalar(BVSub(a[1], b[1]))}
	case "vIsFreshRegion":
		a := args[0].T
		return []Value{scalar(Eq(regionNibble(a[0]), BVConst(0xF, 4)))}
	case "vRangeSeen":
		// loop invariants of a range-over-map loop: the iteration has produced this key already
		w := e.loopWhere
		if w == nil {
			unsup("vRangeSeen outside a loop invariant")
		}
		rg := loopMapRange(w.li)
		if rg == nil {
			unsup("vRangeSeen in the invariant of a loop that does not range over a map")
		}
		it := w.fr.iters[rg]
		if it == nil || it.seen == "" {
			unsup("vRangeSeen: unknown iterator")
		}
		mt := it.t.Underlying().(*types.Map)
		keys := e.mapKey(st, mt, it.x.term(), args[0])
		return []Value{scalar(e.seenRead(st, it, keys))}
	case "vFreshMap":
		// the map was created by the target (after the hole was reached): it is none of the maps
		// that existed before the call
		if h == nil || !h.holeDone {
			unsup("vFreshMap before the call of the target")
		}
		return []Value{scalar(BVUlt(BVConstU(0x80000000+h.entrySeq, RefSort), args[0].T[0]))}
	case "vNoAlias":
		a, b := args[0].T, args[1].T
		// disjoint: different region or non-overlapping [off, off+cap)
		dis := Or(Neq(a[0], b[0]), BVSle(BVAdd(a[1], a[3]), b[1]), BVSle(BVAdd(b[1], b[3]), a[1]))
		return []Value{scalar(dis)}
	case "vModifiesBytes", "vModifiesElems":
		if h == nil {
			unsup("vModifiesBytes outside a harness")
		}
		s := args[0].T
		sl := site.(ssa.CallInstruction).Common().Args[0].Type().Underlying().(*types.Slice)
		h.modifies = append(h.modifies, modClause{kind: "bytes", elem: sl.Elem(), region: s[0], lo: s[1], hi: BVAdd(s[1], s[2])})
		return nil
	case "vModifiesMap":
		if h == nil {
			unsup("vModifiesMap outside a harness")
		}
		mt := site.(ssa.CallInstruction).Common().Args[0].Type()
		if _, ok := mt.Underlying().(*types.Map); !ok {
			unsup("vModifiesMap needs a map")
		}
		h.modifies = append(h.modifies, modClause{kind: "map", root: mt, ref: args[0].T[0]})
		return nil
	case "vModifiesObj", "vModifiesField":
		if h == nil {
			unsup("%s outside a harness", name)
		}
		iv, ok := e.ifaceVals[args[0].T[1].id]
		if !ok || iv.val.A == nil || iv.val.A.kind != AHeap {
			unsup("%s needs a pointer to a heap object", name)
		}
		a := iv.val.A
		mc := modClause{kind: "obj", root: a.root, ref: a.ref}
		// a pointer to a field of a larger object (&h.MACTable): only the leaves of that field
		var sub []string
		if !types.Identical(a.typ, a.root) {
			rl := leavesOf(a.root)
			n := nLeaves(a.typ)
			for i := a.off; i < a.off+n && i < len(rl); i++ {
				sub = append(sub, rl[i].path)
			}
			mc.fields = sub
		}
		if name == "vModifiesField" {
			fs := e.stringSliceConsts(st, args[1])
			if sub != nil {
				// field names relative to the sub-object: keep the sub-object's leaves they cover
				var keep []string
				pm := modClause{fields: fs}
				prefix := ""
				if len(sub) > 0 {
					// common prefix of the sub-object's leaves up to the first differing component is not
					// needed: match on the path suffix after the sub-object's own prefix
					prefix = commonFieldPrefix(sub)
				}
				for _, lp := range sub {
					if pm.coversLeaf(strings.TrimPrefix(lp, prefix)) {
						keep = append(keep, lp)
					}
				}
				mc.fields = keep
			} else {
				mc.fields = fs
			}
		}
		h.modifies = append(h.modifies, mc)
		return nil
	case "vModifiesAll":
		if h == nil {
			unsup("vModifiesAll outside a harness")
		}
		h.modifies = append(h.modifies, modClause{kind: "all"})
		return nil
	case "vModifiesNothing":
		return nil
	case "vModifiesHeap":
		if h == nil {
			unsup("vModifiesHeap outside a harness")
		}
		h.modifies = append(h.modifies, modClause{kind: "heap"})
		return nil
	case "vModifiesMems":
		if h == nil {
			unsup("vModifiesMems outside a harness")
		}
		// variadic string constants: the argument is a slice of string literals
		pats := e.stringSliceConsts(st, args[0])
		h.modifies = append(h.modifies, modClause{kind: "mems", pats: pats})
		return nil
	case "vAtEntry":
		ev := e.loopEval
		if ev == nil {
			unsup("vAtEntry outside a loop invariant")
		}
		ord := siteOrdinal(fr.fn, site, "vAtEntry")
		if ev.entry {
			ev.head.entryVals[ord] = args[0].term()
			return []Value{args[0]}
		}
		v, ok := ev.head.entryVals[ord]
		if !ok {
			unsup("vAtEntry value not recorded at loop entry")
		}
		return []Value{scalar(v)}
	case "vWireEach":
		// every frame handed to the connection from here on satisfies the predicate,
		// evaluated in the state at the moment of the send
		if args[0].C == nil {
			unsup("vWireEach needs a function literal")
		}
		if h != nil && h.mode == modeVerify {
			e.wireEach = args[0].C
		}
		return nil
	case "vBorrowed":
		// the buffer is lent for the duration of the call: no view of it may be stored in memory
		// that outlives the call (checked at every store of the code under verification); at a
		// call site the declaration says that passing a borrowed buffer for this parameter is fine
		if len(args[0].T) > 0 {
			if h != nil && h.mode == modeVerify {
				e.borrowed = append(e.borrowed, args[0].T[0])
			} else if h != nil && h.mode == modeApply {
				if h.borrowOK == nil {
					h.borrowOK = map[int]bool{}
				}
				h.borrowOK[args[0].T[0].id] = true
			}
		}
		return nil
	case "vTrusted":
		// the rest of this path of the contract is not verified: when the contract is applied
		// its postconditions are used all the same, so the case is listed as an assumption
		if h != nil && h.mode == modeVerify {
			msg := "unverified case"
			if cs := e.stringConst(st, args[0]); cs != "" {
				msg = cs
			}
			e.assumedExterns["TRUSTED case of "+h.name+": "+msg] = true
			st.assume(False)
		}
		return nil
	case "vSpawned":
		return []Value{scalar(e.ghostGet(st, "spawned", IntSort))}
	case "vWireCount":
		return []Value{scalar(e.ghostGet(st, "wire.count", IntSort))}
	case "vWireLast":
		return []Value{{T: []*Term{e.ghostGet(st, "wire.r", RegionSort), e.ghostGet(st, "wire.o", IntSort), e.ghostGet(st, "wire.l", IntSort), e.ghostGet(st, "wire.l", IntSort)}}}
	case "vModifiesWire":
		if h == nil {
			unsup("vModifiesWire outside a harness")
		}
		h.modifies = append(h.modifies, modClause{kind: "wire"})
		return nil
	case "vKeptOrNew":
		// (loop invariants) the slice still is the backing array it was at loop entry
		// (same region, offset and capacity) or one allocated since then
		ev := e.loopEval
		if ev == nil {
			unsup("vKeptOrNew outside a loop invariant")
		}
		ord := siteOrdinal(fr.fn, site, "vKeptOrNew")
		s := args[0].T
		if ev.entry {
			ev.head.entrySlices[ord] = []*Term{s[0], s[1], s[3]}
			ev.head.entrySeq = e.allocSeq
			return []Value{scalar(True)}
		}
		o, ok := ev.head.entrySlices[ord]
		if !ok {
			unsup("vKeptOrNew value not recorded at loop entry")
		}
		kept := And(Eq(s[0], o[0]), Eq(s[1], o[1]), Eq(s[3], o[2]))
		fresh := BVUlt(BVConstU(0xF000000000000000+ev.head.entrySeq, RegionSort), s[0])
		return []Value{scalar(Or(kept, fresh))}
	case "vFuel":
		if h != nil && h.mode == modeVerify && args[0].term().IsConst() {
			e.unfoldFuel = int(args[0].term().val.Int64())
		}
		return nil
	case "vReveal":
		if h != nil && h.mode == modeVerify {
			e.reveal = true
		}
		return nil
	case "vStrictLen":
		if h != nil {
			h.strict = true
		}
		return nil
	case "vAllocs":
		return []Value{scalar(e.ghostGet(st, "allocs", 64))}
	case "vForall", "vExists":
		return []Value{scalar(e.quantifier(fr, st, name == "vForall", args, site))}
	case "vOpaque":
		return []Value{args[0]}
	}
	unsup("intrinsic %s", name)
	return nil
}

func (e *Engine) obligeAt(fr *Frame, st *State, kind string, site ssa.Instruction, goal *Term, desc string) {
	ss := fr.spec
	fr.spec = false
	e.oblige(fr, st, kind, site, goal, desc)
	fr.spec = ss
}

func (e *Engine) obligeKind(fr *Frame, st *State, kind string, site ssa.Instruction, goal *Term, desc string) {
	pc, dead := st.pc, st.dead
	e.oblige(fr, st, kind, site, goal, desc)
	st.pc, st.dead = pc, dead // a canary does not cut the path
}

// ---------- builtins ----------

func (e *Engine) builtin(fr *Frame, st *State, b *ssa.Builtin, c *ssa.CallCommon, args []Value, site ssa.Instruction) []Value {
	switch b.Name() {
	case "len":
		t := c.Args[0].Type().Underlying()
		switch u := t.(type) {
		case *types.Slice, *types.Basic:
			return []Value{scalar(args[0].T[2])}
		case *types.Map:
			return []Value{scalar(e.mapLen(st, c.Args[0].Type(), args[0].term()))}
		case *types.Chan:
			n := FreshVar("chanlen", IntSort)
			st.assume(BVSle(BVConst(0, IntSort), n))
			return []Value{scalar(n)}
		case *types.Pointer:
			arr := u.Elem().Underlying().(*types.Array)
			return []Value{scalar(BVConst(arr.Len(), IntSort))}
		case *types.Array:
			return []Value{scalar(BVConst(u.Len(), IntSort))}
		}
	case "cap":
		t := c.Args[0].Type().Underlying()
		switch u := t.(type) {
		case *types.Slice:
			return []Value{scalar(args[0].T[3])}
		case *types.Pointer:
			arr := u.Elem().Underlying().(*types.Array)
			return []Value{scalar(BVConst(arr.Len(), IntSort))}
		case *types.Array:
			return []Value{scalar(BVConst(u.Len(), IntSort))}
		case *types.Chan:
			n := FreshVar("chancap", IntSort)
			st.assume(BVSle(BVConst(0, IntSort), n))
			return []Value{scalar(n)}
		}
	case "copy":
		dst, src := args[0].T, args[1].T
		sl := c.Args[0].Type().Underlying().(*types.Slice)
		n := Ite(BVSlt(dst[2], src[2]), dst[2], src[2])
		for _, l := range leavesOf(sl.Elem()) {
			name := elemMemName(sl.Elem(), l)
			m := e.mem(st, name, elemKS, l.sort)
			st.mems[name] = m.Copy(dst[0], dst[1], n, m, src[0], src[1])
		}
		return []Value{scalar(n)}
	case "append":
		return []Value{e.appendOp(fr, st, c, args, site)}
	case "delete":
		e.mapDelete(fr, st, c.Args[0].Type(), args[0].term(), args[1])
		return nil
	case "panic":
		e.oblige(fr, st, "panic", site, False, "explicit panic reachable")
		st.kill()
		return nil
	case "print", "println":
		return nil
	case "recover":
		return []Value{{T: zeroTerms(c.Signature().Results().At(0).Type())}}
	case "close":
		return nil
	case "ssa:wrapnilchk":
		return []Value{args[0]}
	case "ssa:deferstack":
		return []Value{e.ptrFromTerms([]*Term{BVConst(0, RefSort)}, c.Signature().Results().At(0).Type())}
	case "min", "max":
		t := c.Args[0].Type()
		acc := args[0].term()
		for _, a := range args[1:] {
			x := a.term()
			var lt *Term
			if isSigned(t) {
				lt = BVSlt(x, acc)
			} else {
				lt = BVUlt(x, acc)
			}
			if b.Name() == "max" {
				lt = Not(Or(lt, Eq(x, acc)))
			}
			acc = Ite(lt, x, acc)
		}
		return []Value{scalar(acc)}
	}
	unsup("builtin %s on %s", b.Name(), c.Args[0].Type())
	return nil
}

func (e *Engine) appendOp(fr *Frame, st *State, c *ssa.CallCommon, args []Value, site ssa.Instruction) Value {
	s := args[0].T
	sl := c.Args[0].Type().Underlying().(*types.Slice)
	var src []*Term
	if b, ok := c.Args[1].Type().Underlying().(*types.Basic); ok && b.Info()&types.IsString != 0 {
		x := args[1].T
		src = []*Term{x[0], x[1], x[2], x[2]}
	} else {
		src = args[1].T
	}
	n := src[2]
	newLen := BVAdd(s[2], n)
	fits := BVSle(newLen, s[3])
	// in place
	fr1 := e.freshRegion()
	ncap := FreshVar("appendcap", IntSort)
	st.assume(And(BVSle(newLen, ncap), BVUlt(ncap, BVConstU(1<<48, IntSort))))
	if n.IsConst() && n.val.Sign() == 0 {
		// append(s) or append(s, empty...) returns s unchanged
		return Value{T: s}
	}
	grow := Not(fits)
	// appended elements that hold views of a borrowed buffer are retained with the slice
	if len(e.borrowed) > 0 && !fr.spec && n.IsConst() && n.val.Int64() <= 4 {
		if b, ok := sl.Elem().Underlying().(*types.Basic); !ok || b.Kind() != types.Uint8 {
			els := leavesOf(sl.Elem())
			for k := int64(0); k < n.val.Int64(); k++ {
				var vals []*Term
				for _, l := range els {
					vals = append(vals, e.mem(st, elemMemName(sl.Elem(), l), elemKS, l.sort).Read([]*Term{src[0], BVAdd(src[1], BVConst(k, IntSort))}))
				}
				e.borrowCheck(fr, st, vals, sl.Elem(), site, "an appended slice element")
			}
		}
	}
	for _, l := range leavesOf(sl.Elem()) {
		name := elemMemName(sl.Elem(), l)
		m := e.mem(st, name, elemKS, l.sort)
		// in-place branch
		inplace := m.Copy(s[0], BVAdd(s[1], s[2]), n, m, src[0], src[1])
		// growth branch
		z := BVConst(0, l.sort)
		if l.sort == BoolSort {
			z = False
		}
		g := m.Fill(fr1, z)
		g = g.Copy(fr1, BVConst(0, IntSort), s[2], m, s[0], s[1])
		g = g.Copy(fr1, s[2], n, m, src[0], src[1])
		st.mems[name] = MergeMem(fits, inplace, g)
	}
	if g, ok := st.ghost["allocs"]; ok {
		st.ghost["allocs"] = Ite(grow, BVAdd(g, BVConst(1, 64)), g)
	}
	// appending nothing to a nil slice keeps nil
	return Value{T: []*Term{Ite(fits, s[0], fr1), Ite(fits, s[1], BVConst(0, IntSort)), newLen, Ite(fits, s[3], ncap)}}
}

// ---------- interface method calls ----------

func (e *Engine) invoke(fr *Frame, st *State, c *ssa.CallCommon, recv Value, args []Value, site ssa.Instruction) []Value {
	// nil interface -> panic
	e.oblige(fr, st, "nilderef", site, Neq(recv.T[0], BVConst(0, RefSort)), "method call on nil interface")
	if iv, ok := e.ifaceVals[recv.T[1].id]; ok && recv.T[0].IsConst() {
		ms := e.prog.MethodSets.MethodSet(iv.typ)
		sel := ms.Lookup(c.Method.Pkg(), c.Method.Name())
		if sel != nil {
			if fn := e.prog.MethodValue(sel); fn != nil {
				return e.callStatic(fr, st, fn, append([]Value{iv.val}, args...), site)
			}
		}
	}
	key := fmt.Sprintf("(%s).%s", types.TypeString(c.Value.Type(), func(p *types.Package) string { return p.Name() }), c.Method.Name())
	if r := e.externInvoke(fr, st, key, c, recv, args, site); r != nil {
		return r
	}
	if r, ok := e.invokeByTag(fr, st, c, recv, args, site); ok {
		return r
	}
	e.assumedExterns["interface call "+key+" (assumed total, no effect on modelled state, arbitrary result)"] = true
	return e.havocResults(st, c.Signature(), "inv."+c.Method.Name())
}

// invokeByTag: a method call on an interface value read from memory, for interfaces declared in
// the repository whose implementations are pointer types of the repository: one case per
// implementation, selected by the dynamic type tag (the receiver is the pointer carried by the
// interface value); a value of any other dynamic type makes the result arbitrary.
func (e *Engine) invokeByTag(fr *Frame, st *State, c *ssa.CallCommon, recv Value, args []Value, site ssa.Instruction) ([]Value, bool) {
	nt, ok := c.Value.Type().(*types.Named)
	if !ok || nt.Obj().Pkg() == nil || !strings.HasPrefix(nt.Obj().Pkg().Path(), "github.com/irai/packet") {
		return nil, false
	}
	iface, ok := nt.Underlying().(*types.Interface)
	if !ok {
		return nil, false
	}
	type cand struct {
		t  types.Type
		fn *ssa.Function
	}
	var cands []cand
	for _, pkg := range e.prog.AllPackages() {
		if pkg.Pkg == nil || !strings.HasPrefix(pkg.Pkg.Path(), "github.com/irai/packet") {
			continue
		}
		for _, m := range pkg.Members {
			tn, ok := m.(*ssa.Type)
			if !ok {
				continue
			}
			pt := types.NewPointer(tn.Type())
			if !types.Implements(pt, iface) || types.Implements(tn.Type(), iface) {
				continue // only implementations by pointer receiver (the handle is the pointer)
			}
			sel := e.prog.MethodSets.MethodSet(pt).Lookup(c.Method.Pkg(), c.Method.Name())
			if sel == nil {
				continue
			}
			if fn := e.prog.MethodValue(sel); fn != nil && fn.Blocks != nil {
				cands = append(cands, cand{pt, fn})
			}
		}
	}
	if len(cands) == 0 || len(cands) > 12 {
		return nil, false
	}
	sort.Slice(cands, func(i, j int) bool { return typeKey(cands[i].t) < typeKey(cands[j].t) })
	var sts []*State
	var vals [][]Value
	var none []*Term
	for _, cd := range cands {
		cond := Eq(recv.T[0], e.typeTag(cd.t))
		none = append(none, Not(cond))
		if cond == False {
			continue
		}
		s2 := st.clone()
		s2.assumeBranch(cond)
		rv := e.ptrFromTerms([]*Term{Extract(recv.T[1], 31, 0)}, cd.t)
		v := e.callStatic(fr, s2, cd.fn, append([]Value{rv}, args...), site)
		if s2.dead {
			continue
		}
		sts = append(sts, s2)
		vals = append(vals, v)
	}
	other := And(none...)
	if other != False {
		s2 := st.clone()
		s2.assumeBranch(other)
		e.assumedExterns["interface call "+types.TypeString(c.Value.Type(), nil)+"."+c.Method.Name()+" on a dynamic type outside the repository's pointer implementations: arbitrary result"] = true
		v := e.havocResults(s2, c.Signature(), "inv."+c.Method.Name())
		sts = append(sts, s2)
		vals = append(vals, v)
	}
	if len(sts) == 0 {
		st.kill()
		return e.zeroResults(c.Signature()), true
	}
	m, conds := mergeStates(sts)
	res := c.Signature().Results()
	out := make([]Value, res.Len())
	for k := 0; k < res.Len(); k++ {
		t := res.At(k).Type()
		acc := vals[len(vals)-1][k]
		for i := len(vals) - 2; i >= 0; i-- {
			acc = e.iteValue(conds[i], vals[i][k], acc, t)
		}
		out[k] = acc
	}
	*st = *m
	return out, true
}

// ---------- defers, go, channels ----------

func (e *Engine) deferCall(fr *Frame, st *State, d *ssa.Defer) {
	args := make([]Value, len(d.Call.Args))
	for i, a := range d.Call.Args {
		args[i] = e.val(fr, a)
	}
	dd := deferred{call: &d.Call, args: args, site: d}
	if !d.Call.IsInvoke() {
		if _, ok := d.Call.Value.(*ssa.Builtin); !ok {
			dd.fn = e.val(fr, d.Call.Value)
		}
	} else {
		dd.fn = e.val(fr, d.Call.Value)
	}
	dd.frame = fr.id
	st.defers = append(st.defers, dd)
}

func (e *Engine) runDefers(fr *Frame, st *State, site ssa.Instruction) {
	for len(st.defers) > 0 {
		d := st.defers[len(st.defers)-1]
		if d.frame != fr.id {
			break
		}
		st.defers = st.defers[:len(st.defers)-1]
		c := d.call
		if b, ok := c.Value.(*ssa.Builtin); ok {
			e.builtin(fr, st, b, c, d.args, site)
			continue
		}
		if c.IsInvoke() {
			e.invoke(fr, st, c, d.fn, d.args, site)
			continue
		}
		if callee := c.StaticCallee(); callee != nil {
			if d.fn.C != nil && len(d.fn.C.bindings) > 0 {
				e.callClosure(fr, st, d.fn.C, d.args, site)
			} else {
				e.callStatic(fr, st, callee, d.args, site)
			}
			continue
		}
		if d.fn.C != nil {
			e.callClosure(fr, st, d.fn.C, d.args, site)
			continue
		}
		e.assumedExterns["deferred dynamic call (assumed total, no effects)"] = true
	}
}

func (e *Engine) goCall(fr *Frame, st *State, g *ssa.Go) {
	// the spawned goroutine is not part of the sequential semantics of the spawner
	for _, a := range g.Call.Args {
		_ = e.val(fr, a)
	}
	st.ghost["spawned"] = BVAdd(e.ghostGet(st, "spawned", IntSort), BVConst(1, IntSort))
	// The spawned call is checked under one schedule: it runs at once, in the state at the go
	// statement (panic sites of a function literal's body, the precondition of a callee under
	// contract). Its effects are discarded: the spawner continues from its own state.
	callee := g.Call.StaticCallee()
	_, isLit := g.Call.Value.(*ssa.MakeClosure)
	if callee != nil && !g.Call.IsInvoke() && (isLit || e.contracts[callee] != nil) && !fr.spec {
		tmp := st.clone()
		nObl := len(e.obls)
		ok := func() (ok bool) {
			defer func() {
				if r := recover(); r != nil {
					if _, isU := r.(unsupported); isU {
						ok = false
						return
					}
					panic(r)
				}
			}()
			e.call(fr, tmp, &g.Call, g)
			return true
		}()
		if ok {
			e.assumedExterns["go statement: the spawned call is checked as if it ran at once in the state at the go statement; other interleavings and its effects on the spawner are not modelled"] = true
			return
		}
		e.obls = e.obls[:nObl]
	}
	e.assumedExterns["go statement: the spawned goroutine is not executed (sequential semantics)"] = true
}

func (e *Engine) send(fr *Frame, st *State, s *ssa.Send) {
	_ = e.val(fr, s.Chan)
	_ = e.val(fr, s.X)
	if g, ok := st.ghost["sent"]; ok {
		st.ghost["sent"] = BVAdd(g, BVConst(1, 64))
	}
	e.assumedExterns["channel send does not block (sequential semantics)"] = true
}

func (e *Engine) selectOp(fr *Frame, st *State, s *ssa.Select) {
	// result tuple: (index int, recvOk bool, r_0 T_0, ...) ; arbitrary enabled branch
	tt := s.Type().(*types.Tuple)
	var ts []*Term
	idx := FreshVar("select.idx", IntSort)
	lo := int64(0)
	if !s.Blocking {
		lo = -1
	}
	st.assume(And(BVSle(BVConst(lo, IntSort), idx), BVSlt(idx, BVConst(int64(len(s.States)), IntSort))))
	ts = append(ts, idx, FreshVar("select.ok", BoolSort))
	for i := 2; i < tt.Len(); i++ {
		x := freshTerms("select.recv", tt.At(i).Type())
		st.assume(wfAssumptions(x, tt.At(i).Type(), false))
		ts = append(ts, x...)
	}
	for _, sc := range s.States {
		_ = e.val(fr, sc.Chan)
		if sc.Send != nil {
			_ = e.val(fr, sc.Send)
		}
	}
	e.assumedExterns["select: an arbitrary branch is taken, received values are arbitrary (sequential semantics)"] = true
	fr.regs[s] = Value{T: ts}
}

// siteOrdinal numbers the calls to an intrinsic inside fn by source position,
// so that obligation names do not depend on the order of execution.
func siteOrdinal(fn *ssa.Function, site ssa.Instruction, name string) int {
	n := 0
	for _, b := range fn.Blocks {
		for _, in := range b.Instrs {
			ci, ok := in.(ssa.CallInstruction)
			if !ok {
				continue
			}
			if cal := ci.Common().StaticCallee(); cal != nil && cal.Name() == name {
				if in.Pos() < site.Pos() || in == site {
					n++
				}
			}
		}
	}
	return n
}

// stringSliceConsts decodes a []string whose elements are string literals.
func (e *Engine) stringSliceConsts(st *State, v Value) []string {
	s := v.T
	if !s[2].IsConst() {
		unsup("vModifiesMems needs literal arguments")
	}
	n := int(s[2].val.Int64())
	var out []string
	ls := leavesOf(types.Typ[types.String])
	for i := 0; i < n; i++ {
		var ts []*Term
		for _, l := range ls {
			name := elemMemName(types.Typ[types.String], l)
			ts = append(ts, e.mem(st, name, elemKS, l.sort).Read([]*Term{s[0], BVAdd(s[1], BVConst(int64(i), IntSort))}))
		}
		if !ts[0].IsConst() {
			unsup("vModifiesMems needs literal arguments")
		}
		lit, ok := e.litByID[ts[0].val.Uint64()]
		if !ok {
			unsup("vModifiesMems needs literal arguments")
		}
		out = append(out, lit)
	}
	return out
}

// stringConst: the value of a string argument when it is a literal ("" otherwise).
func (e *Engine) stringConst(st *State, v Value) string {
	if len(v.T) < 3 || !v.T[0].IsConst() || !v.T[1].IsConst() || !v.T[2].IsConst() {
		return ""
	}
	lit, ok := e.litByID[v.T[0].val.Uint64()]
	if !ok {
		return ""
	}
	o, n := int(v.T[1].val.Int64()), int(v.T[2].val.Int64())
	if o < 0 || n < 0 || o+n > len(lit) {
		return ""
	}
	return lit[o : o+n]
}

// commonFieldPrefix: the longest "a.b." prefix shared by all leaf paths.
func commonFieldPrefix(paths []string) string {
	if len(paths) == 0 {
		return ""
	}
	p := paths[0]
	for _, q := range paths[1:] {
		for !strings.HasPrefix(q, p) {
			i := strings.LastIndex(strings.TrimSuffix(p, "."), ".")
			if i < 0 {
				return ""
			}
			p = p[:i+1]
		}
	}
	if i := strings.LastIndex(p, "."); i >= 0 {
		return p[:i+1]
	}
	return ""
}

func (m *modClause) coversLeaf(path string) bool {
	if len(m.fields) == 0 {
		return true
	}
	for _, f := range m.fields {
		if path == f || strings.HasPrefix(path, f+".") || strings.HasPrefix(path, f+"$") {
			return true
		}
	}
	return false
}

// frameObligations: after the body of the function under contract has run,
// every memory location outside the declared modifies set (and outside memory
// allocated by the call itself) still holds its entry value. The universally
// quantified statement is Skolemised: one arbitrary location per memory.
func (e *Engine) frameObligations(fr *Frame, st *State, entry map[string]*Mem, entrySeq uint64, h *harnessCtx, site ssa.Instruction) {
	for _, m := range h.modifies {
		if m.kind == "all" {
			return
		}
	}
	var names []string
	for n := range st.mems {
		names = append(names, n)
	}
	sort.Strings(names)
	for _, name := range names {
		fin := st.mems[name]
		ent, ok := entry[name]
		if !ok {
			ent = NewBaseMem(name, fin.ksort, fin.sort, "M0."+name)
		}
		if fin == ent || strings.HasPrefix(name, "map:iter.") {
			continue
		}
		covered := false
		for _, m := range h.modifies {
			switch m.kind {
			case "heap":
				if !(len(fin.ksort) == 2 && strings.HasPrefix(name, "elem:uint8/")) {
					covered = true
				}
			case "mems":
				for _, p := range m.pats {
					if strings.Contains(name, p) {
						covered = true
					}
				}
			}
		}
		if covered {
			continue
		}
		// first choice: check every write between the entry chain and the final
		// chain individually (small queries); fall back to one arbitrary location
		if e.frameByWrites(fr, st, name, fin, ent, entrySeq, h, site) {
			continue
		}
		// arbitrary key
		keys := make([]*Term, len(fin.ksort))
		for i, s := range fin.ksort {
			keys[i] = FreshVar("frame.k", s)
		}
		var outside []*Term
		switch {
		case len(fin.ksort) == 2 && strings.HasPrefix(name, "elem:"):
			// not a region allocated by the call
			outside = append(outside, BVUle(keys[0], BVConstU(0xF000000000000000+entrySeq, RegionSort)))
			// cells of arrays embedded in heap objects exist only inside the array
			for id, n := range fieldLens {
				isF := Eq(Extract(keys[0], 63, 32), BVConstU(0xE0000000+id, 32))
				outside = append(outside, Implies(isF, And(BVSle(BVConst(0, IntSort), keys[1]), BVSlt(keys[1], BVConst(n, IntSort)))))
			}
			for _, m := range h.modifies {
				if m.kind == "bytes" && strings.HasPrefix(name, "elem:"+typeKeyElem(m.elem)+"/") {
					outside = append(outside, Not(And(Eq(keys[0], m.region), BVSle(m.lo, keys[1]), BVSlt(keys[1], m.hi))))
				}
			}
		case len(fin.ksort) == 1 && strings.HasPrefix(name, "obj:"):
			outside = append(outside, BVUle(keys[0], BVConstU(0x80000000+entrySeq, RefSort)))
			for _, m := range h.modifies {
				if m.kind != "obj" {
					continue
				}
				for _, l := range leavesOf(m.root) {
					if objMemName(m.root, l) == name && m.coversLeaf(l.path) {
						outside = append(outside, Neq(keys[0], m.ref))
					}
				}
			}
		case strings.HasPrefix(name, "map:"):
			outside = append(outside, BVUle(keys[0], BVConstU(0x80000000+entrySeq, RefSort)))
			for _, m := range h.modifies {
				if m.kind != "map" {
					continue
				}
				dom, ln, vals := mapMemNames(m.root)
				for _, n := range append([]string{dom, ln}, vals...) {
					if n == name {
						outside = append(outside, Neq(keys[0], m.ref))
					}
				}
			}
		}
		tmp := st.clone()
		tmp.assume(And(outside...))
		goal := Eq(fin.Read(keys), ent.Read(keys))
		ss := fr.spec
		fr.spec = false
		e.oblige(fr, tmp, "frame", site, goal, "memory "+name+" is unchanged outside the declared modifies set")
		fr.spec = ss
	}
}

// frameByWrites walks the chain from fin back to ent and emits, per write, the
// obligation that it falls inside the modifies set or into memory allocated by
// the call. It reports false when the chain shape does not allow this.
func (e *Engine) frameByWrites(fr *Frame, st *State, name string, fin, ent *Mem, entrySeq uint64, h *harnessCtx, site ssa.Instruction) bool {
	isElem := len(fin.ksort) == 2 && strings.HasPrefix(name, "elem:")
	isObj := len(fin.ksort) == 1 && strings.HasPrefix(name, "obj:")
	if !isElem && !isObj {
		return false
	}
	type ob struct {
		cond, goal *Term
	}
	var obs []ob
	zero := BVConst(0, IntSort)
	allowedRange := func(region, lo, hi *Term) *Term {
		alts := []*Term{BVUlt(BVConstU(0xF000000000000000+entrySeq, RegionSort), region)}
		for _, m := range h.modifies {
			if m.kind == "bytes" && strings.HasPrefix(name, "elem:"+typeKeyElem(m.elem)+"/") {
				alts = append(alts, And(Eq(region, m.region), BVSle(m.lo, lo), BVSle(hi, m.hi)))
			}
		}
		return Or(alts...)
	}
	allowedRef := func(ref *Term) *Term {
		alts := []*Term{BVUlt(BVConstU(0x80000000+entrySeq, RefSort), ref)}
		for _, m := range h.modifies {
			if m.kind != "obj" {
				continue
			}
			for _, l := range leavesOf(m.root) {
				if objMemName(m.root, l) == name && m.coversLeaf(l.path) {
					alts = append(alts, Eq(ref, m.ref))
				}
			}
		}
		return Or(alts...)
	}
	ok := true
	seen := map[*Mem]bool{}
	var walk func(m *Mem, cond *Term)
	walk = func(m *Mem, cond *Term) {
		for m != nil && m != ent && ok {
			if m.id < ent.id {
				ok = false // passed below the entry chain without meeting it
				return
			}
			switch m.kind {
			case MWrite:
				if isElem {
					obs = append(obs, ob{cond, allowedRange(m.keys[0], m.keys[1], BVAdd(m.keys[1], BVConst(1, IntSort)))})
				} else {
					obs = append(obs, ob{cond, allowedRef(m.keys[0])})
				}
			case MCopy:
				obs = append(obs, ob{And(cond, Neq(m.n, zero)), allowedRange(m.region, m.dst, BVAdd(m.dst, m.n))})
			case MFill:
				obs = append(obs, ob{cond, allowedRange(m.region, zero, zero)})
			case MHavoc:
				obs = append(obs, ob{And(cond, BVSlt(m.lo, m.hi)), allowedRange(m.region, m.lo, m.hi)})
			case MHavocFresh:
			case MHavocRegions:
				for _, r := range m.regions {
					if isObj {
						obs = append(obs, ob{cond, allowedRef(r)})
						continue
					}
					n := int64(-1)
					if r.op == "concat" && r.args[0].IsConst() {
						if ln, ok2 := fieldLens[r.args[0].val.Uint64()-0xE0000000]; ok2 {
							n = ln
						}
					}
					if n < 0 {
						ok = false
						return
					}
					obs = append(obs, ob{cond, allowedRange(r, zero, BVConst(n, IntSort))})
				}
			case MMerge:
				if seen[m] {
					return
				}
				seen[m] = true
				walk(m.a, And(cond, m.cond))
				walk(m.b, And(cond, Not(m.cond)))
				return
			default:
				ok = false
				return
			}
			m = m.prev
		}
		if m == nil {
			ok = false
		}
	}
	walk(fin, True)
	if !ok {
		return false
	}
	ss := fr.spec
	fr.spec = false
	for _, o := range obs {
		tmp := st.clone()
		tmp.assume(o.cond)
		if tmp.dead {
			continue
		}
		e.oblige(fr, tmp, "frame", site, o.goal, "write to "+name+" stays inside the declared modifies set")
	}
	fr.spec = ss
	return true
}

func typeKeyElem(elem types.Type) string {
	u := elem.Underlying()
	if b, ok := u.(*types.Basic); ok {
		u = types.Typ[b.Kind()]
	}
	return typeKey(u)
}

// refineHavoc: when a postcondition pins a havoc'd field to a term (x' == t),
// store t itself instead of the fresh variable, so that later index arithmetic
// stays syntactic (old+1, old+2, ...) and memory reads can be resolved without
// the solver.
func (e *Engine) refineHavoc(st *State, h *harnessCtx, c *Term) {
	if len(h.havocVars) == 0 {
		return
	}
	var conj []*Term
	if c.op == "and" {
		conj = c.args
	} else {
		conj = []*Term{c}
	}
	for _, x := range conj {
		if x.op != "=" {
			continue
		}
		for k := 0; k < 2; k++ {
			v, t := x.args[k], x.args[1-k]
			if v.op != "var" {
				continue
			}
			name, ok := h.havocVars[v.name]
			if !ok || mentions(t, v.name) {
				continue
			}
			m := st.mems[name]
			if m != nil && m.kind == MWrite && m.val == v {
				st.mems[name] = m.prev.Write(m.keys, t)
				delete(h.havocVars, v.name)
			}
		}
	}
}

// onlyFeasibleBranch: the branch conditions taken since the hole of an applied contract follow
// from what was known at the hole (the contract's other cases are infeasible at this call
// site), so its postconditions here hold on every feasible path and may pin results.
// Decided by the solver with a short timeout; "unknown" means no pinning.
func (e *Engine) onlyFeasibleBranch(st *State, h *harnessCtx) bool {
	if h.holePC == nil {
		return false
	}
	var since []*Term
	for x := st.pc; x != nil && x != h.holePC; x = x.parent {
		if x.depth < h.holePC.depth {
			return false
		}
		if x.branch {
			since = append(since, x.fact)
		}
	}
	if len(since) == 0 || len(since) > 40 {
		return false
	}
	goal := And(since...)
	if len(e.quantVars) > 0 && e.mentionsQuant(goal) {
		return false
	}
	key := fmt.Sprintf("%d/%d", h.holePC.term().id, goal.id)
	if v, ok := e.branchCache[key]; ok {
		return v
	}
	o := &Obligation{Name: "pin-branch", Kind: "internal", hyp: h.holePC.term(), goal: goal}
	v := solveReqDo("", solveReq{Query: e.buildQuery(o, nil), TimeoutMs: 2000})
	if e.branchCache == nil {
		e.branchCache = map[string]bool{}
	}
	e.branchCache[key] = v.Status == "unsat"
	return v.Status == "unsat"
}

// pinResults records result leaves that a postcondition determines: v == t, or
// a sum containing v once equal to a constant / another sum.
func (e *Engine) pinResults(h *harnessCtx, c *Term) bool {
	pinned := false
	if os.Getenv("GOVC_DEBUG_PIN") != "" {
		s := c.String()
		if len(s) > 600 {
			s = s[:600]
		}
		fmt.Printf("PINTRY %s: %s\n", h.name, s)
	}
	if len(h.resultVars) == 0 {
		return false
	}
	var conj []*Term
	if c.op == "and" {
		conj = c.args
	} else {
		conj = []*Term{c}
	}
	for _, x := range conj {
		if x.op != "=" || x.args[0].sort == BoolSort {
			continue
		}
		for k := 0; k < 2; k++ {
			l, r := x.args[k], x.args[1-k]
			var v *Term
			var rest []*Term
			switch {
			case l.op == "var" && h.resultVars[l.name]:
				v = l
			case l.op == "bvadd":
				cnt := 0
				for _, a := range l.args {
					if a.op == "var" && h.resultVars[a.name] && v == nil {
						v = a
						cnt++
					} else {
						rest = append(rest, a)
					}
				}
				if cnt != 1 {
					v = nil
				}
			}
			if v == nil {
				continue
			}
			if h.subst == nil {
				h.subst = map[string]*Term{}
			}
			if _, done := h.subst[v.name]; done {
				continue
			}
			terms := []*Term{r}
			for _, a := range rest {
				terms = append(terms, BVNeg(a))
			}
			t := bvSum(v.sort, terms...)
			if mentions(t, v.name) || termSize(t, 400) > 400 {
				continue
			}
			if h.pinCond != nil && h.pinCond != True {
				// postcondition stated on some paths only: the result is pinned under that condition
				t = Ite(h.pinCond, t, v)
			}
			h.subst[v.name] = t
			pinned = true
			if os.Getenv("GOVC_DEBUG_PIN") != "" {
				s := t.String()
				if len(s) > 200 {
					s = s[:200]
				}
				fmt.Printf("PIN %s := %s\n", v.name, s)
			}
			break
		}
	}
	return pinned
}

// postDominates: every path from block h to a return passes through b.
func postDominates(b, h *ssa.BasicBlock) bool {
	if b == h {
		return true
	}
	seen := map[*ssa.BasicBlock]bool{b: true}
	stack := []*ssa.BasicBlock{h}
	for len(stack) > 0 {
		x := stack[len(stack)-1]
		stack = stack[:len(stack)-1]
		if seen[x] {
			continue
		}
		seen[x] = true
		if len(x.Succs) == 0 {
			// a return (or panic) reachable without passing b
			if _, isRet := x.Instrs[len(x.Instrs)-1].(*ssa.Return); isRet {
				return false
			}
			continue
		}
		stack = append(stack, x.Succs...)
	}
	return true
}

func (e *Engine) ghostGet(st *State, name string, s Sort) *Term {
	if g, ok := st.ghost[name]; ok {
		return g
	}
	g := Var("ghost0."+name, s)
	if name == "wire.count" || name == "spawned" {
		st.assume(And(BVSle(BVConst(0, IntSort), g), BVSlt(g, BVConstU(1<<40, IntSort))))
	}
	st.ghost[name] = g
	return g
}

// wireSend records a frame handed to the session connection.
func (e *Engine) wireSend(fr *Frame, st *State, frame []*Term, site ssa.Instruction) {
	n := e.ghostGet(st, "wire.count", IntSort)
	st.ghost["wire.count"] = BVAdd(n, BVConst(1, IntSort))
	st.ghost["wire.r"], st.ghost["wire.o"], st.ghost["wire.l"] = frame[0], frame[1], frame[2]
	e.checkWireEach(fr, st, nil, site)
}

// checkWireEach discharges the vWireEach predicate of the harness being verified for the frame
// just sent (before == nil), or for the at most one frame an applied contract reports
// (before = the frame count ahead of the call).
func (e *Engine) checkWireEach(fr *Frame, st *State, before *Term, site ssa.Instruction) {
	cl := e.wireEach
	if cl == nil || e.inWireEach {
		return
	}
	e.inWireEach = true
	defer func() { e.inWireEach = false }()
	w := Value{T: []*Term{e.ghostGet(st, "wire.r", RegionSort), e.ghostGet(st, "wire.o", IntSort), e.ghostGet(st, "wire.l", IntSort), e.ghostGet(st, "wire.l", IntSort)}}
	nf := e.newFrame(cl.fn, fr)
	nf.freevars = cl.bindings
	nf.spec = true
	nf.quiet = true
	nf.prefix = fr.prefix
	tmp := st.clone()
	vals := e.finishCall(fr, tmp, nf, []Value{w}, site)
	st.pc = tmp.pc
	goal := vals[0].term()
	if before != nil {
		now := e.ghostGet(st, "wire.count", IntSort)
		goal = Or(Eq(now, before), And(Eq(now, BVAdd(before, BVConst(1, IntSort))), goal))
	}
	ss, q := fr.spec, fr.quiet
	fr.spec, fr.quiet = false, false
	// named per harness (the k-th send encountered), not per call chain: "every frame sent
	// satisfies P" is one claim of the harness, however the sends are reached
	e.oblBase = "sends"
	e.oblige(fr, st, "wire-each", site, goal, "frame handed to the connection satisfies the harness's vWireEach predicate")
	e.oblBase = ""
	fr.spec, fr.quiet = ss, q
}

// termSize counts DAG nodes up to a limit.
func termSize(t *Term, limit int) int {
	n := 0
	seen := map[int]bool{}
	stack := []*Term{t}
	for len(stack) > 0 && n <= limit {
		x := stack[len(stack)-1]
		stack = stack[:len(stack)-1]
		if seen[x.id] {
			continue
		}
		seen[x.id] = true
		n++
		stack = append(stack, x.args...)
	}
	return n
}
