package main

import (
	"encoding/json"
	"os/exec"
	"sync"
	"flag"
	"fmt"
	"os"
	"path/filepath"
	"sort"
	"strconv"
	"strings"
	"time"
)

var verifDir = "/verif"

type Ledger struct {
	// property -> obligation full names discharged on the baseline tree
	Discharged map[string][]string `json:"discharged"`
	Harnesses  map[string][]string `json:"harnesses"`
}

func loadLedger() *Ledger {
	l := &Ledger{Discharged: map[string][]string{}, Harnesses: map[string][]string{}}
	b, err := os.ReadFile(filepath.Join(verifDir, "baseline", "ledger.json"))
	if err == nil {
		json.Unmarshal(b, l)
	}
	return l
}

type knownFinding struct {
	prop, obligation, what string
	fixed                  bool
}

func loadKnownFindings() []knownFinding {
	var out []knownFinding
	b, err := os.ReadFile(filepath.Join(verifDir, "known_findings.txt"))
	if err != nil {
		return nil
	}
	for _, ln := range strings.Split(string(b), "\n") {
		ln = strings.TrimSpace(ln)
		if ln == "" || strings.HasPrefix(ln, "#") {
			continue
		}
		kf := knownFinding{}
		switch {
		case strings.HasPrefix(ln, "finding:"):
			ln = strings.TrimSpace(strings.TrimPrefix(ln, "finding:"))
		case strings.HasPrefix(ln, "fixed:"):
			kf.fixed = true
			ln = strings.TrimSpace(strings.TrimPrefix(ln, "fixed:"))
		default:
			continue
		}
		parts := strings.SplitN(ln, " -- ", 2)
		if len(parts) == 2 {
			kf.what = parts[1]
		}
		for _, f := range strings.Fields(parts[0]) {
			switch {
			case strings.HasPrefix(f, "property="):
				kf.prop = strings.TrimPrefix(f, "property=")
			case strings.HasPrefix(f, "obligation="):
				kf.obligation = strings.TrimPrefix(f, "obligation=")
			}
		}
		out = append(out, kf)
	}
	return out
}

type oblReport struct {
	Name    string  `json:"name"`
	Kind    string  `json:"kind"`
	Pos     string  `json:"pos"`
	Status  string  `json:"status"`
	Solver  string  `json:"solver"`
	TimeS   float64 `json:"time_s"`
	SMTSize int     `json:"smt_bytes"`
	Desc    string  `json:"desc,omitempty"`
}

func hasProp(h *Harness, p string) bool {
	for _, x := range h.Props {
		if x == p {
			return true
		}
	}
	return false
}

// checkAcc accumulates the outcome of the harnesses processed by one process; sharded runs
// (-jobs) merge the accumulators of their children.
type checkAcc struct {
	Reports       []oblReport        `json:"reports"`
	Total         int                `json:"total"`
	Discharged    int                `json:"discharged"`
	Canaries      int                `json:"canaries"`
	CanariesOK    int                `json:"canaries_ok"`
	BySolver      map[string]int     `json:"by_solver"`
	SolverTime    float64            `json:"solver_time"`
	MaxT          float64            `json:"max_t"`
	Assumed       map[string]bool    `json:"assumed"`
	Inlined       map[string]bool    `json:"inlined"`
	Fuc           map[string]bool    `json:"fuc"`
	UsedContracts map[string]bool    `json:"used_contracts"`
	Warnings      []string           `json:"warnings"`
	Undecided     []string           `json:"undecided"`
	Violations    int                `json:"violations"`
	KnownHits     int                `json:"known_hits"`
	ToolingErr    bool               `json:"tooling_err"`
	NewLedger     []string           `json:"new_ledger"`
	HarnessNames  []string           `json:"harness_names"`
	Confirmations int                `json:"confirmations"`
	Disagreements int                `json:"disagreements"`
	LoadS         float64            `json:"load_s"`
	HarnessTime   map[string]float64 `json:"harness_time"`
}

func newAcc() *checkAcc {
	return &checkAcc{BySolver: map[string]int{}, Assumed: map[string]bool{}, Inlined: map[string]bool{}, Fuc: map[string]bool{},
		UsedContracts: map[string]bool{}, HarnessTime: map[string]float64{}}
}

func (a *checkAcc) merge(b *checkAcc) {
	a.Reports = append(a.Reports, b.Reports...)
	a.Total += b.Total
	a.Discharged += b.Discharged
	a.Canaries += b.Canaries
	a.CanariesOK += b.CanariesOK
	for k, v := range b.BySolver {
		a.BySolver[k] += v
	}
	a.SolverTime += b.SolverTime
	if b.MaxT > a.MaxT {
		a.MaxT = b.MaxT
	}
	for k := range b.Assumed {
		a.Assumed[k] = true
	}
	for k := range b.Inlined {
		a.Inlined[k] = true
	}
	for k := range b.Fuc {
		a.Fuc[k] = true
	}
	for k := range b.UsedContracts {
		a.UsedContracts[k] = true
	}
	a.Warnings = append(a.Warnings, b.Warnings...)
	a.Undecided = append(a.Undecided, b.Undecided...)
	a.Violations += b.Violations
	a.KnownHits += b.KnownHits
	a.ToolingErr = a.ToolingErr || b.ToolingErr
	a.NewLedger = append(a.NewLedger, b.NewLedger...)
	a.HarnessNames = append(a.HarnessNames, b.HarnessNames...)
	a.Confirmations += b.Confirmations
	a.Disagreements += b.Disagreements
	if b.LoadS > a.LoadS {
		a.LoadS = b.LoadS
	}
	for k, v := range b.HarnessTime {
		a.HarnessTime[k] = v
	}
}

func loadTimings() map[string]float64 {
	t := map[string]float64{}
	if b, err := os.ReadFile(filepath.Join(verifDir, "baseline", "timings.json")); err == nil {
		json.Unmarshal(b, &t)
	}
	return t
}

func cmdCheck(args []string) int {
	fs := flag.NewFlagSet("check", flag.ExitOnError)
	prop := fs.String("prop", "", "property id")
	tier := fs.String("tier", "quick", "quick|thorough")
	writeLedger := fs.Bool("write-ledger", false, "record discharged obligations as the baseline (never used by registered checks)")
	dump := fs.String("smt", "", "dump SMT queries here")
	jobs := fs.Int("jobs", 1, "number of worker processes (harnesses are distributed over them)")
	shard := fs.String("shard", "", "k/n: process only the harnesses of shard k of n (internal, used by -jobs)")
	partial := fs.String("partial", "", "write the accumulator of this shard here (internal)")
	fs.Parse(args)
	if *prop == "" {
		fmt.Fprintln(os.Stderr, "check: -prop required")
		return 2
	}
	smtDir = *dump
	if smtDir != "" {
		os.MkdirAll(smtDir, 0o755)
	}
	start := time.Now()
	seed := 0
	if s := os.Getenv("VERIF_SEED"); s != "" {
		seed, _ = strconv.Atoi(s)
	}
	var acc *checkAcc
	if *jobs > 1 && *shard == "" {
		acc = runShards(*prop, *tier, *jobs, *dump)
	} else {
		acc = checkShard(*prop, *tier, *shard)
		if *partial != "" {
			b, _ := json.Marshal(acc)
			os.WriteFile(*partial, b, 0o644)
			return 0
		}
	}
	if len(acc.HarnessNames) == 0 && !acc.ToolingErr {
		fmt.Printf("TOOLING-ERROR: no harness is tagged with property %s\n", *prop)
		acc.ToolingErr = true
	}
	ledger := loadLedger()
	inLedger := map[string]bool{}
	for _, n := range ledger.Discharged[*prop] {
		inLedger[n] = true
	}
	// obligations that were in the ledger but no longer exist are reported (not an alarm)
	missing := 0
	have := map[string]bool{}
	for _, r := range acc.Reports {
		have[r.Name] = true
	}
	for n := range inLedger {
		if !have[n] && !strings.HasSuffix(n, "#none-retained") && !strings.HasSuffix(n, "#all-sites") {
			missing++
		}
	}
	sort.Strings(acc.HarnessNames)
	sort.Slice(acc.Reports, func(i, j int) bool { return acc.Reports[i].Name < acc.Reports[j].Name })

	if *writeLedger {
		sort.Strings(acc.NewLedger)
		ledger.Discharged[*prop] = acc.NewLedger
		ledger.Harnesses[*prop] = acc.HarnessNames
		b, _ := json.MarshalIndent(ledger, "", " ")
		os.MkdirAll(filepath.Join(verifDir, "baseline"), 0o755)
		os.WriteFile(filepath.Join(verifDir, "baseline", "ledger.json"), b, 0o644)
		tm := loadTimings()
		for k, v := range acc.HarnessTime {
			tm[k] = float64(int(v*10)) / 10
		}
		tb, _ := json.MarshalIndent(tm, "", " ")
		os.WriteFile(filepath.Join(verifDir, "baseline", "timings.json"), tb, 0o644)
	}

	// evidence
	wall := time.Since(start).Seconds()
	samples := []oblReport{}
	for i, r := range acc.Reports {
		if i%maxInt(1, len(acc.Reports)/8) == 0 && len(samples) < 10 {
			samples = append(samples, r)
		}
	}
	undecided := acc.Undecided
	if undecided == nil {
		undecided = []string{}
	}
	sort.Strings(undecided)
	ev := map[string]interface{}{
		"property_id": *prop,
		"tier":        *tier,
		"seed":        seed,
		"level":       "proof",
		"wall_s":      wall,
		"violations":  acc.Violations,
		"coverage": map[string]interface{}{
			// obligations listed as known findings are reported separately (known_findings_hit)
			// and are not part of the proof claim
			"obligations":                 acc.Total - acc.KnownHits,
			"discharged":                  acc.Discharged,
			"obligations_generated":       acc.Total,
			"checker_cmd":                 fmt.Sprintf("bin/govc check -prop %s -tier %s -jobs %d (go/ssa weakest-precondition VCs over /repo's working tree, discharged by z3-new 5.1.0 / cvc5 1.0.3 / z3 4.8.12)", *prop, *tier, *jobs),
			"trusted_base":                trustedBase(),
			"samples":                     samples,
			"harnesses":                   acc.HarnessNames,
			"functions_under_contract":    keys(acc.Fuc),
			"contracts_applied":           keys(acc.UsedContracts),
			"inlined_not_modular":         keys(acc.Inlined),
			"by_solver":                   acc.BySolver,
			"solver_time_s":               acc.SolverTime,
			"max_obligation_s":            acc.MaxT,
			"canaries":                    acc.Canaries,
			"canaries_refuted":            acc.CanariesOK,
			"known_findings_hit":          acc.KnownHits,
			"undecided":                   undecided,
			"ledger_obligations_missing":  missing,
			"second_solver_confirmations": acc.Confirmations,
			"solver_disagreements":        acc.Disagreements,
			"load_s":                      acc.LoadS,
			"worker_processes":            *jobs,
			"warnings":                    uniq(acc.Warnings),
			"int_width":                   intBits,
		},
		"assumptions": append(keys(acc.Assumed), globalAssumptions()...),
	}
	evDir := filepath.Join(verifDir, "evidence")
	if d := os.Getenv("VERIF_EVIDENCE"); d != "" {
		evDir = d // scratch runs (seeded changes) do not overwrite the evidence of the real tree
	}
	os.MkdirAll(evDir, 0o755)
	b, _ := json.MarshalIndent(ev, "", " ")
	os.WriteFile(filepath.Join(evDir, *prop+".json"), b, 0o644)

	fmt.Printf("property %s: %d obligations, %d discharged, %d known findings, %d undecided, %d violations, canaries %d/%d, %.1fs\n",
		*prop, acc.Total, acc.Discharged, acc.KnownHits, len(acc.Undecided), acc.Violations, acc.CanariesOK, acc.Canaries, wall)
	if acc.Violations > 0 {
		return 1
	}
	if acc.ToolingErr {
		return 2
	}
	return 0
}

// runShards distributes the harnesses over worker processes and merges their accumulators.
func runShards(prop, tier string, jobs int, dump string) *checkAcc {
	acc := newAcc()
	exe, err := os.Executable()
	if err != nil {
		fmt.Printf("TOOLING-ERROR: cannot find own executable: %v\n", err)
		acc.ToolingErr = true
		return acc
	}
	dir, err := os.MkdirTemp(filepath.Join(verifDir, "replays"), ".shards")
	if err != nil {
		os.MkdirAll(filepath.Join(verifDir, "replays"), 0o755)
		dir, err = os.MkdirTemp(filepath.Join(verifDir, "replays"), ".shards")
	}
	if err != nil {
		fmt.Printf("TOOLING-ERROR: cannot create shard directory: %v\n", err)
		acc.ToolingErr = true
		return acc
	}
	defer os.RemoveAll(dir)
	type res struct {
		k    int
		out  []byte
		err  error
		file string
	}
	ch := make(chan res, jobs)
	for k := 0; k < jobs; k++ {
		go func(k int) {
			f := filepath.Join(dir, fmt.Sprintf("part%d.json", k))
			a := []string{"check", "-prop", prop, "-tier", tier, "-shard", fmt.Sprintf("%d/%d", k, jobs), "-partial", f}
			if dump != "" {
				a = append(a, "-smt", dump)
			}
			cmd := exec.Command(exe, a...)
			cmd.Env = os.Environ()
			out, err := cmd.CombinedOutput()
			ch <- res{k, out, err, f}
		}(k)
	}
	outs := make([]res, jobs)
	for i := 0; i < jobs; i++ {
		r := <-ch
		outs[r.k] = r
	}
	for _, r := range outs {
		os.Stdout.Write(r.out)
		b, err := os.ReadFile(r.file)
		if err != nil {
			fmt.Printf("TOOLING-ERROR: worker %d produced no result (%v)\n", r.k, r.err)
			acc.ToolingErr = true
			continue
		}
		part := newAcc()
		if err := json.Unmarshal(b, part); err != nil {
			fmt.Printf("TOOLING-ERROR: worker %d result unreadable: %v\n", r.k, err)
			acc.ToolingErr = true
			continue
		}
		acc.merge(part)
	}
	return acc
}

// checkShard loads /repo and decides the harnesses of one shard ("" = all of them).
func checkShard(propV, tierV, shard string) *checkAcc {
	prop, tier := &propV, &tierV
	acc := newAcc()
	sk, sn := 0, 1
	if shard != "" {
		fmt.Sscanf(shard, "%d/%d", &sk, &sn)
		if sn < 1 || sk < 0 || sk >= sn {
			fmt.Printf("TOOLING-ERROR: bad shard %q\n", shard)
			acc.ToolingErr = true
			return acc
		}
	}
	timeout := 20 * time.Second
	if *tier == "thorough" {
		timeout = 60 * time.Second
	}
	if sn > 1 {
		// mild oversubscription of the 16 cores: most queries are short; a query that loses the
		// race for a core is decided again on its own (solveAll)
		solvePar = 32 / sn
		if solvePar < 3 {
			solvePar = 3
		}
	}
	w, err := loadWorld(allPatterns, "")
	if err != nil {
		fmt.Printf("TOOLING-ERROR: cannot load /repo with -tags verif: %v\n", err)
		acc.ToolingErr = true
		return acc
	}
	acc.LoadS = w.loadTime
	ledger := loadLedger()
	inLedger := map[string]bool{}
	for _, n := range ledger.Discharged[*prop] {
		inLedger[n] = true
	}
	known := loadKnownFindings()

	// the harnesses of the property, longest (by the recorded baseline timing) first, dealt
	// round-robin to the shards
	var mine []string
	{
		var all []string
		for _, n := range w.order {
			h := w.harnesses[n]
			if h.Kind == "extern" || !hasProp(h, *prop) {
				continue
			}
			all = append(all, n)
		}
		tm := loadTimings()
		sort.SliceStable(all, func(i, j int) bool { return tm[all[i]] > tm[all[j]] })
		for i, n := range all {
			if i%sn == sk {
				mine = append(mine, n)
			}
		}
		if len(all) == 0 {
			return acc
		}
	}

	for _, n := range mine {
		h := w.harnesses[n]
		hstart := time.Now()
		acc.HarnessNames = append(acc.HarnessNames, n)
		res := w.runHarness(h)
		if res.Err != "" {
			fmt.Printf("TOOLING-ERROR: harness %s cannot be decided: %s\n", n, firstLine(res.Err))
			acc.ToolingErr = true
			continue
		}
		if h.Target != nil {
			acc.Fuc[fnName(h.Target)] = true
		}
		for _, x := range res.Assumed {
			acc.Assumed[x] = true
		}
		for _, x := range res.Inlined {
			acc.Inlined[x] = true
		}
		for _, x := range res.Contracts {
			acc.UsedContracts[x] = true
			if hn := w.contractHarnessByTarget(x); hn != nil {
				switch {
				case hn.Kind == "extern":
					acc.Assumed["contract of "+x+" is trusted ("+hn.Name+")"] = true
				case len(hn.Props) == 0:
					acc.Assumed["contract of "+x+" is assumed here: its harness "+hn.Name+" is not yet discharged under any property"] = true
				}
				for _, tc := range hn.trustedCases() {
					acc.Assumed["contract of "+x+" has a TRUSTED (unverified) case: "+tc] = true
				}
			}
		}
		acc.Warnings = append(acc.Warnings, res.Warnings...)
		if len(res.Obls) == 0 {
			fmt.Printf("TOOLING-ERROR: harness %s produced no obligation (vacuous)\n", n)
			acc.ToolingErr = true
			continue
		}
		to := timeout
		if h.Timeout > to {
			to = h.Timeout
		}
		solveAll(res, to, true)
		// thorough tier: every "unsat" is confirmed independently by a second solver (in parallel)
		confirm := map[int]Verdict{}
		if *tier == "thorough" {
			var mu sync.Mutex
			var wg sync.WaitGroup
			sem := make(chan struct{}, solvePar)
			// queries are built one after the other (term construction is not concurrent), solved in parallel
			qs := map[int]string{}
			for i, o := range res.Obls {
				if o.Kind == "canary" || res.Verdicts[i].Status != "unsat" {
					continue
				}
				qs[i] = res.engine.buildQuery(o, nil)
			}
			for i, q := range qs {
				wg.Add(1)
				sem <- struct{}{}
				go func(i int, q string) {
					defer wg.Done()
					defer func() { <-sem }()
					c := solveReqDo("", solveReq{Query: q, TimeoutMs: 20000, Second: true})
					mu.Lock()
					confirm[i] = c
					mu.Unlock()
				}(i, q)
			}
			wg.Wait()
		}
		// "no view of the borrowed buffer is retained" is one claim of a harness that declares
		// vBorrowed: its obligations exist only where a store could retain a view, so a change
		// that introduces such a store introduces a NEW obligation. The claim itself is recorded
		// in the ledger under one aggregate name.
		borrowAgg := n + "/borrowed#none-retained"
		if len(res.engine.borrowed) > 0 {
			allOK := true
			for i, o := range res.Obls {
				if strings.HasPrefix(o.Kind, "borrow") && res.Verdicts[i].Status != "unsat" {
					allOK = false
				}
			}
			if allOK {
				acc.NewLedger = append(acc.NewLedger, borrowAgg)
			}
		}
		// In the same way "no panic site of this harness can be reached" is one claim: a change
		// that introduces a new panic site (a conversion, an index expression, a dereference that
		// was not there) introduces an obligation with a new name. Recorded under one aggregate
		// name when every panic-site obligation of the harness is discharged.
		panicAgg := n + "/nopanic#all-sites"
		{
			allOK, any := true, false
			for i, o := range res.Obls {
				if isPanicKind(o.Kind) {
					any = true
					if res.Verdicts[i].Status != "unsat" {
						allOK = false
					}
				}
			}
			if allOK && any {
				acc.NewLedger = append(acc.NewLedger, panicAgg)
			}
		}
		for i, o := range res.Obls {
			v := res.Verdicts[i]
			full := n + "/" + o.Name
			acc.SolverTime += v.Time
			if v.Time > acc.MaxT {
				acc.MaxT = v.Time
			}
			acc.BySolver[v.Solver]++
			rep := oblReport{Name: full, Kind: o.Kind, Pos: fmt.Sprintf("%s:%d", shortFile(o.Pos.Filename), o.Pos.Line), Status: v.Status, Solver: v.Solver, TimeS: v.Time, SMTSize: v.SMTSize, Desc: o.Desc}
			acc.Reports = append(acc.Reports, rep)
			if o.Kind == "canary" {
				acc.Canaries++
				if v.Status == "sat" {
					acc.CanariesOK++
				} else {
					fmt.Printf("TOOLING-ERROR: canary %s is not refutable (%s): hypotheses are contradictory or the check is vacuous\n", full, v.Status)
					acc.ToolingErr = true
				}
				continue
			}
			acc.Total++
			if v.Status == "unsat" {
				if *tier == "thorough" {
					// independent confirmation by a second solver
					c := confirm[i]
					if c.Status == "unsat" {
						acc.Confirmations++
					} else if c.Status == "sat" {
						acc.Disagreements++
						fmt.Printf("TOOLING-ERROR: solver disagreement on %s (%s unsat, %s sat)\n", full, v.Solver, c.Solver)
						acc.ToolingErr = true
					}
				}
				acc.Discharged++
				acc.NewLedger = append(acc.NewLedger, full)
				continue
			}
			// not discharged
			if kf := matchKnown(known, *prop, full); kf != nil {
				fmt.Printf("KNOWN-FINDING: property=%s %s [%s]\n", *prop, kf.what, full)
				acc.KnownHits++
				continue
			}
			rr := ReplayResult{}
			if v.Status == "sat" {
				rr = w.replay(res, i, filepath.Join(verifDir, "replays"), timeout)
			}
			switch {
			case rr.Reproduced:
				acc.Violations++
				fmt.Printf("VIOLATION property=%s replay=%s\n", *prop, rr.Path)
				fmt.Printf("  obligation %s (%s) at %s fails; counterexample reproduced on the real code\n", full, o.Desc, rep.Pos)
			case inLedger[full] || (strings.HasPrefix(o.Kind, "borrow") && inLedger[borrowAgg]) || (isPanicKind(o.Kind) && inLedger[panicAgg]):
				acc.Violations++
				path := writeNoInputReplay(*prop, full, o, v, rr)
				fmt.Printf("VIOLATION property=%s replay=%s no-failing-input-found\n", *prop, path)
				fmt.Printf("  obligation %s (%s) at %s was discharged on the baseline tree and is not any more (%s; %s)\n", full, o.Desc, rep.Pos, v.Status, rr.Note)
			default:
				acc.Undecided = append(acc.Undecided, full)
				fmt.Printf("UNDECIDED obligation=%s status=%s at %s (%s) %s\n", full, v.Status, rep.Pos, o.Desc, rr.Note)
			}
		}
		acc.HarnessTime[n] = time.Since(hstart).Seconds()
	}
	return acc
}

// isPanicKind: obligations that stand for a run-time panic site of the code under verification
// (not of spec code: those are prefixed "spec-").
func isPanicKind(k string) bool {
	switch k {
	case "index", "slice", "nilderef", "nilmap", "s2a", "div0", "shift", "makeslice", "panic", "typeassert", "unreachable":
		return true
	}
	return false
}

func maxInt(a, b int) int {
	if a > b {
		return a
	}
	return b
}

func firstLine(s string) string {
	return strings.SplitN(s, "\n", 2)[0]
}

func keys(m map[string]bool) []string {
	out := []string{}
	for k := range m {
		out = append(out, k)
	}
	sort.Strings(out)
	return out
}

func uniq(xs []string) []string {
	m := map[string]bool{}
	for _, x := range xs {
		m[x] = true
	}
	return keys(m)
}

func matchKnown(known []knownFinding, prop, full string) *knownFinding {
	for i := range known {
		k := &known[i]
		if k.fixed || k.prop != prop {
			continue
		}
		if k.obligation == full {
			return k
		}
	}
	return nil
}

func writeNoInputReplay(prop, full string, o *Obligation, v Verdict, rr ReplayResult) string {
	dir := filepath.Join(verifDir, "replays")
	os.MkdirAll(dir, 0o755)
	path := filepath.Join(dir, sanitize(full)+".txt")
	var sb strings.Builder
	fmt.Fprintf(&sb, "property: %s\nfailed obligation: %s\nkind: %s\nsite: %s:%d\nmeaning: %s\nsolver: %s status=%s time=%.2fs\nreplay: %s\n\n--- solver output ---\n%s\n--- replay output ---\n%s\n",
		prop, full, o.Kind, o.Pos.Filename, o.Pos.Line, o.Desc, v.Solver, v.Status, v.Time, rr.Note, v.Output, rr.Output)
	os.WriteFile(path, []byte(sb.String()), 0o644)
	return path
}

func trustedBase() []string {
	return []string{
		"go/packages + go/ssa (x/tools v0.29.0) translation of /repo to SSA; gc compiler and Go runtime",
		"govc SSA-to-SMT semantics (bit-vector integers of exact width, region/offset slices, write-chain memories)",
		"SMT solvers z3 5.1.0, cvc5 1.0.3, z3 4.8.12",
		"spec functions (spec_*) in the zz_*_verif.go files: the reference decoders / renderers",
		"sequential semantics: mutexes are no-ops, goroutines are not executed",
	}
}

func globalAssumptions() []string {
	return []string{
		fmt.Sprintf("int/uint are %d-bit", intBits),
		"every slice satisfies 0 <= len <= cap < 2^48; distinct allocation classes never alias",
		"netip.Addr values carry no IPv6 zone",
		"recursive spec functions terminate (they are executed natively in replays)",
	}
}

func (w *World) contractHarnessByTarget(name string) *Harness {
	for _, h := range w.harnesses {
		if h.Target != nil && fnName(h.Target) == name {
			return h
		}
	}
	return nil
}
