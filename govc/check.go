package main

import (
	"encoding/json"
	"flag"
	"fmt"
	"os"
	"path/filepath"
	"sort"
	"strconv"
	"strings"
	"time"
)

var verifDir = "/verif"

type Ledger struct {
	// property -> obligation full names discharged on the baseline tree
	Discharged map[string][]string `json:"discharged"`
	Harnesses  map[string][]string `json:"harnesses"`
}

func loadLedger() *Ledger {
	l := &Ledger{Discharged: map[string][]string{}, Harnesses: map[string][]string{}}
	b, err := os.ReadFile(filepath.Join(verifDir, "baseline", "ledger.json"))
	if err == nil {
		json.Unmarshal(b, l)
	}
	return l
}

type knownFinding struct {
	prop, obligation, what string
	fixed                  bool
}

func loadKnownFindings() []knownFinding {
	var out []knownFinding
	b, err := os.ReadFile(filepath.Join(verifDir, "known_findings.txt"))
	if err != nil {
		return nil
	}
	for _, ln := range strings.Split(string(b), "\n") {
		ln = strings.TrimSpace(ln)
		if ln == "" || strings.HasPrefix(ln, "#") {
			continue
		}
		kf := knownFinding{}
		switch {
		case strings.HasPrefix(ln, "finding:"):
			ln = strings.TrimSpace(strings.TrimPrefix(ln, "finding:"))
		case strings.HasPrefix(ln, "fixed:"):
			kf.fixed = true
			ln = strings.TrimSpace(strings.TrimPrefix(ln, "fixed:"))
		default:
			continue
		}
		parts := strings.SplitN(ln, " -- ", 2)
		if len(parts) == 2 {
			kf.what = parts[1]
		}
		for _, f := range strings.Fields(parts[0]) {
			switch {
			case strings.HasPrefix(f, "property="):
				kf.prop = strings.TrimPrefix(f, "property=")
			case strings.HasPrefix(f, "obligation="):
				kf.obligation = strings.TrimPrefix(f, "obligation=")
			}
		}
		out = append(out, kf)
	}
	return out
}

type oblReport struct {
	Name    string  `json:"name"`
	Kind    string  `json:"kind"`
	Pos     string  `json:"pos"`
	Status  string  `json:"status"`
	Solver  string  `json:"solver"`
	TimeS   float64 `json:"time_s"`
	SMTSize int     `json:"smt_bytes"`
	Desc    string  `json:"desc,omitempty"`
}

func hasProp(h *Harness, p string) bool {
	for _, x := range h.Props {
		if x == p {
			return true
		}
	}
	return false
}

func cmdCheck(args []string) int {
	fs := flag.NewFlagSet("check", flag.ExitOnError)
	prop := fs.String("prop", "", "property id")
	tier := fs.String("tier", "quick", "quick|thorough")
	writeLedger := fs.Bool("write-ledger", false, "record discharged obligations as the baseline (never used by registered checks)")
	dump := fs.String("smt", "", "dump SMT queries here")
	fs.Parse(args)
	if *prop == "" {
		fmt.Fprintln(os.Stderr, "check: -prop required")
		return 2
	}
	smtDir = *dump
	if smtDir != "" {
		os.MkdirAll(smtDir, 0o755)
	}
	start := time.Now()
	seed := 0
	if s := os.Getenv("VERIF_SEED"); s != "" {
		seed, _ = strconv.Atoi(s)
	}
	timeout := 20 * time.Second
	if *tier == "thorough" {
		timeout = 60 * time.Second
	}
	w, err := loadWorld(allPatterns, "")
	if err != nil {
		fmt.Printf("TOOLING-ERROR: cannot load /repo with -tags verif: %v\n", err)
		return 2
	}
	ledger := loadLedger()
	inLedger := map[string]bool{}
	for _, n := range ledger.Discharged[*prop] {
		inLedger[n] = true
	}
	known := loadKnownFindings()

	var reports []oblReport
	total, discharged, canaries, canariesOK := 0, 0, 0, 0
	bySolver := map[string]int{}
	solverTime, maxT := 0.0, 0.0
	assumed := map[string]bool{}
	inlined := map[string]bool{}
	fuc := map[string]bool{}
	usedContracts := map[string]bool{}
	var warnings []string
	var undecided []string
	violations := 0
	knownHits := 0
	toolingErr := false
	var newLedger []string
	var harnessNames []string
	confirmations, disagreements := 0, 0

	for _, n := range w.order {
		h := w.harnesses[n]
		if h.Kind == "extern" || !hasProp(h, *prop) {
			continue
		}
		harnessNames = append(harnessNames, n)
		res := w.runHarness(h)
		if res.Err != "" {
			fmt.Printf("TOOLING-ERROR: harness %s cannot be decided: %s\n", n, firstLine(res.Err))
			toolingErr = true
			continue
		}
		if h.Target != nil {
			fuc[fnName(h.Target)] = true
		}
		for _, x := range res.Assumed {
			assumed[x] = true
		}
		for _, x := range res.Inlined {
			inlined[x] = true
		}
		for _, x := range res.Contracts {
			usedContracts[x] = true
			if hn := w.contractHarnessByTarget(x); hn != nil {
				switch {
				case hn.Kind == "extern":
					assumed["contract of "+x+" is trusted ("+hn.Name+")"] = true
				case len(hn.Props) == 0:
					assumed["contract of "+x+" is assumed here: its harness "+hn.Name+" is not yet discharged under any property"] = true
				}
			}
		}
		warnings = append(warnings, res.Warnings...)
		if len(res.Obls) == 0 {
			fmt.Printf("TOOLING-ERROR: harness %s produced no obligation (vacuous)\n", n)
			toolingErr = true
			continue
		}
		to := timeout
		if h.Timeout > to {
			to = h.Timeout
		}
		solveAll(res, to, true)
		for i, o := range res.Obls {
			v := res.Verdicts[i]
			full := n + "/" + o.Name
			solverTime += v.Time
			if v.Time > maxT {
				maxT = v.Time
			}
			bySolver[v.Solver]++
			rep := oblReport{Name: full, Kind: o.Kind, Pos: fmt.Sprintf("%s:%d", shortFile(o.Pos.Filename), o.Pos.Line), Status: v.Status, Solver: v.Solver, TimeS: v.Time, SMTSize: v.SMTSize, Desc: o.Desc}
			reports = append(reports, rep)
			if o.Kind == "canary" {
				canaries++
				if v.Status == "sat" {
					canariesOK++
				} else {
					fmt.Printf("TOOLING-ERROR: canary %s is not refutable (%s): hypotheses are contradictory or the check is vacuous\n", full, v.Status)
					toolingErr = true
				}
				continue
			}
			total++
			if v.Status == "unsat" {
				if *tier == "thorough" {
					// independent confirmation by a second solver
					c := solveReqDo("", solveReq{Query: res.engine.buildQuery(o, nil), TimeoutMs: 60000, Second: true})
					if c.Status == "unsat" {
						confirmations++
					} else if c.Status == "sat" {
						disagreements++
						fmt.Printf("TOOLING-ERROR: solver disagreement on %s (%s unsat, %s sat)\n", full, v.Solver, c.Solver)
						toolingErr = true
					}
				}
				discharged++
				newLedger = append(newLedger, full)
				continue
			}
			// not discharged
			if kf := matchKnown(known, *prop, full); kf != nil {
				fmt.Printf("KNOWN-FINDING: property=%s %s [%s]\n", *prop, kf.what, full)
				knownHits++
				continue
			}
			rr := ReplayResult{}
			if v.Status == "sat" {
				rr = w.replay(res, i, filepath.Join(verifDir, "replays"), timeout)
			}
			switch {
			case rr.Reproduced:
				violations++
				fmt.Printf("VIOLATION property=%s replay=%s\n", *prop, rr.Path)
				fmt.Printf("  obligation %s (%s) at %s fails; counterexample reproduced on the real code\n", full, o.Desc, rep.Pos)
			case inLedger[full]:
				violations++
				path := writeNoInputReplay(*prop, full, o, v, rr)
				fmt.Printf("VIOLATION property=%s replay=%s no-failing-input-found\n", *prop, path)
				fmt.Printf("  obligation %s (%s) at %s was discharged on the baseline tree and is not any more (%s; %s)\n", full, o.Desc, rep.Pos, v.Status, rr.Note)
			default:
				undecided = append(undecided, full)
				fmt.Printf("UNDECIDED obligation=%s status=%s at %s (%s) %s\n", full, v.Status, rep.Pos, o.Desc, rr.Note)
			}
		}
	}
	if len(harnessNames) == 0 {
		fmt.Printf("TOOLING-ERROR: no harness is tagged with property %s\n", *prop)
		toolingErr = true
	}
	// obligations that were in the ledger but no longer exist are reported (not an alarm)
	missing := 0
	have := map[string]bool{}
	for _, r := range reports {
		have[r.Name] = true
	}
	for n := range inLedger {
		if !have[n] {
			missing++
		}
	}

	if *writeLedger {
		sort.Strings(newLedger)
		ledger.Discharged[*prop] = newLedger
		ledger.Harnesses[*prop] = harnessNames
		b, _ := json.MarshalIndent(ledger, "", " ")
		os.MkdirAll(filepath.Join(verifDir, "baseline"), 0o755)
		os.WriteFile(filepath.Join(verifDir, "baseline", "ledger.json"), b, 0o644)
	}

	// evidence
	wall := time.Since(start).Seconds()
	samples := []oblReport{}
	for i, r := range reports {
		if i%maxInt(1, len(reports)/8) == 0 && len(samples) < 10 {
			samples = append(samples, r)
		}
	}
	ev := map[string]interface{}{
		"property_id": *prop,
		"tier":        *tier,
		"seed":        seed,
		"level":       "proof",
		"wall_s":      wall,
		"violations":  violations,
		"coverage": map[string]interface{}{
			// obligations listed as known findings are reported separately (known_findings_hit)
			// and are not part of the proof claim
			"obligations":              total - knownHits,
			"discharged":               discharged,
			"obligations_generated":    total,
			"checker_cmd":              fmt.Sprintf("bin/govc check -prop %s -tier %s  (go/ssa weakest-precondition VCs over /repo's working tree, discharged by z3-new 5.1.0 / cvc5 1.0.3 / z3 4.8.12)", *prop, *tier),
			"trusted_base":             trustedBase(),
			"samples":                  samples,
			"harnesses":                harnessNames,
			"functions_under_contract": keys(fuc),
			"contracts_applied":        keys(usedContracts),
			"inlined_not_modular":      keys(inlined),
			"by_solver":                bySolver,
			"solver_time_s":            solverTime,
			"max_obligation_s":         maxT,
			"canaries":                 canaries,
			"canaries_refuted":         canariesOK,
			"known_findings_hit":       knownHits,
			"undecided":                undecided,
			"ledger_obligations_missing": missing,
			"second_solver_confirmations": confirmations,
			"solver_disagreements":     disagreements,
			"load_s":                   w.loadTime,
			"warnings":                 uniq(warnings),
			"int_width":                intBits,
		},
		"assumptions": append(keys(assumed), globalAssumptions()...),
	}
	os.MkdirAll(filepath.Join(verifDir, "evidence"), 0o755)
	b, _ := json.MarshalIndent(ev, "", " ")
	os.WriteFile(filepath.Join(verifDir, "evidence", *prop+".json"), b, 0o644)

	fmt.Printf("property %s: %d obligations, %d discharged, %d known findings, %d undecided, %d violations, canaries %d/%d, %.1fs\n",
		*prop, total, discharged, knownHits, len(undecided), violations, canariesOK, canaries, wall)
	if violations > 0 {
		return 1
	}
	if toolingErr {
		return 2
	}
	return 0
}

func maxInt(a, b int) int {
	if a > b {
		return a
	}
	return b
}

func firstLine(s string) string {
	return strings.SplitN(s, "\n", 2)[0]
}

func keys(m map[string]bool) []string {
	out := []string{}
	for k := range m {
		out = append(out, k)
	}
	sort.Strings(out)
	return out
}

func uniq(xs []string) []string {
	m := map[string]bool{}
	for _, x := range xs {
		m[x] = true
	}
	return keys(m)
}

func matchKnown(known []knownFinding, prop, full string) *knownFinding {
	for i := range known {
		k := &known[i]
		if k.fixed || k.prop != prop {
			continue
		}
		if k.obligation == full {
			return k
		}
	}
	return nil
}

func writeNoInputReplay(prop, full string, o *Obligation, v Verdict, rr ReplayResult) string {
	dir := filepath.Join(verifDir, "replays")
	os.MkdirAll(dir, 0o755)
	path := filepath.Join(dir, sanitize(full)+".txt")
	var sb strings.Builder
	fmt.Fprintf(&sb, "property: %s\nfailed obligation: %s\nkind: %s\nsite: %s:%d\nmeaning: %s\nsolver: %s status=%s time=%.2fs\nreplay: %s\n\n--- solver output ---\n%s\n--- replay output ---\n%s\n",
		prop, full, o.Kind, o.Pos.Filename, o.Pos.Line, o.Desc, v.Solver, v.Status, v.Time, rr.Note, v.Output, rr.Output)
	os.WriteFile(path, []byte(sb.String()), 0o644)
	return path
}

func trustedBase() []string {
	return []string{
		"go/packages + go/ssa (x/tools v0.29.0) translation of /repo to SSA; gc compiler and Go runtime",
		"govc SSA-to-SMT semantics (bit-vector integers of exact width, region/offset slices, write-chain memories)",
		"SMT solvers z3 5.1.0, cvc5 1.0.3, z3 4.8.12",
		"spec functions (spec_*) in the zz_*_verif.go files: the reference decoders / renderers",
		"sequential semantics: mutexes are no-ops, goroutines are not executed",
	}
}

func globalAssumptions() []string {
	return []string{
		fmt.Sprintf("int/uint are %d-bit", intBits),
		"every slice satisfies 0 <= len <= cap < 2^48; distinct allocation classes never alias",
		"netip.Addr values carry no IPv6 zone",
		"recursive spec functions terminate (they are executed natively in replays)",
	}
}

func (w *World) contractHarnessByTarget(name string) *Harness {
	for _, h := range w.harnesses {
		if h.Target != nil && fnName(h.Target) == name {
			return h
		}
	}
	return nil
}
