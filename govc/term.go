package main

// Hash-consed term DAG over Bool and fixed-width bit-vectors plus uninterpreted
// functions. Every VC govc emits is a quantifier-free formula over these terms
// (logic QF_UFBV); quantified hypotheses are instantiated before printing.

import (
	"os"
	"fmt"
	"math/big"
	"sort"
	"strings"
)

// Sort: 0 = Bool, n>0 = (_ BitVec n)
type Sort int

const BoolSort Sort = 0

func (s Sort) String() string {
	if s == 0 {
		return "Bool"
	}
	return fmt.Sprintf("(_ BitVec %d)", int(s))
}

type Term struct {
	id   int
	op   string // "const", "var", "uf", or an SMT operator
	name string // for var / uf: symbol; for extract etc: parameters
	val  *big.Int
	args []*Term
	sort Sort
	hi   int // extract hi / zero_extend amount
	lo   int
}

type TermStore struct {
	tab   map[string]*Term
	next  int
	ufs   map[string]ufDecl // uninterpreted functions / constants
	fresh int
}

type ufDecl struct {
	args []Sort
	ret  Sort
}

var TS = &TermStore{tab: map[string]*Term{}, ufs: map[string]ufDecl{}}

func (ts *TermStore) intern(t *Term) *Term {
	var sb strings.Builder
	sb.WriteString(t.op)
	sb.WriteByte('|')
	sb.WriteString(t.name)
	sb.WriteByte('|')
	if t.val != nil {
		sb.WriteString(t.val.Text(16))
	}
	fmt.Fprintf(&sb, "|%d|%d|%d", int(t.sort), t.hi, t.lo)
	for _, a := range t.args {
		fmt.Fprintf(&sb, ",%d", a.id)
	}
	k := sb.String()
	if o, ok := ts.tab[k]; ok {
		return o
	}
	ts.next++
	t.id = ts.next
	ts.tab[k] = t
	return t
}

func mk(op string, sort Sort, args ...*Term) *Term {
	return TS.intern(&Term{op: op, sort: sort, args: args})
}

var (
	True  = TS.intern(&Term{op: "true", sort: BoolSort})
	False = TS.intern(&Term{op: "false", sort: BoolSort})
)

func BoolConst(b bool) *Term {
	if b {
		return True
	}
	return False
}

func mask(w Sort) *big.Int {
	m := new(big.Int).Lsh(big.NewInt(1), uint(w))
	return m.Sub(m, big.NewInt(1))
}

func BVConstBig(v *big.Int, w Sort) *Term {
	x := new(big.Int).And(v, mask(w))
	return TS.intern(&Term{op: "const", sort: w, val: x})
}

func BVConst(v int64, w Sort) *Term { return BVConstBig(big.NewInt(v), w) }
func BVConstU(v uint64, w Sort) *Term {
	return BVConstBig(new(big.Int).SetUint64(v), w)
}

func (t *Term) IsConst() bool { return t.op == "const" || t.op == "true" || t.op == "false" }
func (t *Term) IsTrue() bool  { return t == True }
func (t *Term) IsFalse() bool { return t == False }

// signed value of a constant
func (t *Term) SVal() *big.Int {
	v := new(big.Int).Set(t.val)
	if v.Bit(int(t.sort)-1) == 1 {
		v.Sub(v, new(big.Int).Lsh(big.NewInt(1), uint(t.sort)))
	}
	return v
}

// Var declares (or returns) a free constant.
func Var(name string, s Sort) *Term {
	if d, ok := TS.ufs[name]; ok {
		if d.ret != s || len(d.args) != 0 {
			// the same source name at another sort (another harness): separate symbol
			return Var(fmt.Sprintf("%s@%d", name, int(s)), s)
		}
	} else {
		TS.ufs[name] = ufDecl{ret: s}
	}
	return TS.intern(&Term{op: "var", name: name, sort: s})
}

func FreshVar(prefix string, s Sort) *Term {
	TS.fresh++
	return Var(fmt.Sprintf("%s!%d", sanitize(prefix), TS.fresh), s)
}

func FreshName(prefix string) string {
	TS.fresh++
	return fmt.Sprintf("%s!%d", sanitize(prefix), TS.fresh)
}

func sanitize(s string) string {
	var sb strings.Builder
	for _, r := range s {
		switch {
		case r >= 'a' && r <= 'z', r >= 'A' && r <= 'Z', r >= '0' && r <= '9', r == '_', r == '.', r == '!', r == '$':
			sb.WriteRune(r)
		default:
			sb.WriteByte('_')
		}
	}
	return sb.String()
}

// UF applies an uninterpreted function.
func UF(name string, ret Sort, args ...*Term) *Term {
	name = sanitize(name)
	as := make([]Sort, len(args))
	for i, a := range args {
		as[i] = a.sort
	}
	if d, ok := TS.ufs[name]; ok {
		if d.ret != ret || len(d.args) != len(as) {
			panic(fmt.Sprintf("UF %s redeclared (%v->%v vs %v->%v)", name, d.args, d.ret, as, ret))
		}
		for i := range as {
			if d.args[i] != as[i] {
				panic(fmt.Sprintf("UF %s redeclared with different arg sorts", name))
			}
		}
	} else {
		TS.ufs[name] = ufDecl{args: as, ret: ret}
	}
	if len(args) == 0 {
		return TS.intern(&Term{op: "var", name: name, sort: ret})
	}
	return TS.intern(&Term{op: "uf", name: name, sort: ret, args: args})
}

// ---------- boolean connectives with simplification ----------

func Not(a *Term) *Term {
	switch {
	case a == True:
		return False
	case a == False:
		return True
	case a.op == "not":
		return a.args[0]
	}
	return mk("not", BoolSort, a)
}

func And(xs ...*Term) *Term {
	for round := 0; round < 4; round++ {
		r, changed := and1(xs)
		if !changed || r.op != "and" {
			return r
		}
		xs = r.args
	}
	r, _ := and1(xs)
	return r
}

// and1 flattens, removes duplicates and propagates the conjuncts as units into
// negated conjunctions: x & !(x & y) becomes x & !y.
func and1(xs []*Term) (*Term, bool) {
	var out []*Term
	seen := map[int]bool{}
	var add func(x *Term) bool
	add = func(x *Term) bool {
		if x == False {
			return false
		}
		if x == True || seen[x.id] {
			return true
		}
		if x.op == "and" {
			for _, y := range x.args {
				if !add(y) {
					return false
				}
			}
			return true
		}
		seen[x.id] = true
		out = append(out, x)
		return true
	}
	for _, x := range xs {
		if !add(x) {
			return False, false
		}
	}
	for _, x := range out {
		if x.op == "not" && seen[x.args[0].id] {
			return False, false
		}
	}
	changed := false
	for i, x := range out {
		if x.op != "not" || x.args[0].op != "and" {
			continue
		}
		inner := x.args[0].args
		var rest []*Term
		dropX := false
		for _, y := range inner {
			if seen[y.id] {
				continue // known true
			}
			if y.op == "not" && seen[y.args[0].id] {
				dropX = true // inner conjunction is false, so x is true
				break
			}
			if ny := Not(y); seen[ny.id] {
				dropX = true
				break
			}
			rest = append(rest, y)
		}
		switch {
		case dropX:
			out[i] = True
			changed = true
		case len(rest) == 0:
			return False, false
		case len(rest) < len(inner):
			out[i] = Not(mkAnd(rest))
			changed = true
		}
	}
	if changed {
		var o2 []*Term
		for _, x := range out {
			if x != True {
				o2 = append(o2, x)
			}
		}
		out = o2
	}
	switch len(out) {
	case 0:
		return True, false
	case 1:
		return out[0], false
	}
	sort.SliceStable(out, func(i, j int) bool { return out[i].id < out[j].id })
	return mk("and", BoolSort, out...), changed
}

func mkAnd(xs []*Term) *Term {
	if len(xs) == 1 {
		return xs[0]
	}
	ys := append([]*Term(nil), xs...)
	sort.SliceStable(ys, func(i, j int) bool { return ys[i].id < ys[j].id })
	return mk("and", BoolSort, ys...)
}

func Or(xs ...*Term) *Term {
	var out []*Term
	seen := map[int]bool{}
	var add func(x *Term) bool
	add = func(x *Term) bool {
		if x == True {
			return false
		}
		if x == False || seen[x.id] {
			return true
		}
		if x.op == "or" {
			for _, y := range x.args {
				if !add(y) {
					return false
				}
			}
			return true
		}
		seen[x.id] = true
		out = append(out, x)
		return true
	}
	for _, x := range xs {
		if !add(x) {
			return True
		}
	}
	for _, x := range out {
		if x.op == "not" && seen[x.args[0].id] {
			return True
		}
	}
	switch len(out) {
	case 0:
		return False
	case 1:
		return out[0]
	}
	sort.SliceStable(out, func(i, j int) bool { return out[i].id < out[j].id })
	return mk("or", BoolSort, out...)
}

func Implies(a, b *Term) *Term { return Or(Not(a), b) }

var noIteCollapse = os.Getenv("GOVC_NO_ITE_COLLAPSE") != ""

func Ite(c, a, b *Term) *Term {
	if a.sort != b.sort {
		panic(fmt.Sprintf("ite sort mismatch %v %v", a.sort, b.sort))
	}
	switch {
	case c == True:
		return a
	case c == False:
		return b
	case a == b:
		return a
	}
	if a.sort == BoolSort {
		if a == True && b == False {
			return c
		}
		if a == False && b == True {
			return Not(c)
		}
		if a == True {
			return Or(c, b)
		}
		if b == False {
			return And(c, a)
		}
		if a == False {
			return And(Not(c), b)
		}
		if b == True {
			return Or(Not(c), a)
		}
	}
	if c.op == "not" {
		return Ite(c.args[0], b, a)
	}
	// ite(c, x, ite(c, y, z)) = ite(c, x, z)
	if b.op == "ite" && b.args[0] == c {
		return Ite(c, a, b.args[2])
	}
	if a.op == "ite" && a.args[0] == c {
		return Ite(c, a.args[1], b)
	}
	// ite(c, x, ite(d, x, y)) = ite(c or d, x, y): alternatives with the same value are one
	// alternative (keeps the nesting of merged values shallow)
	if a.sort != BoolSort && !noIteCollapse {
		if b.op == "ite" && b.args[1] == a {
			return Ite(Or(c, b.args[0]), a, b.args[2])
		}
		if a.op == "ite" && a.args[2] == b {
			return Ite(And(c, a.args[0]), a.args[1], b)
		}
	}
	return mk("ite", a.sort, c, a, b)
}

func Eq(a, b *Term) *Term {
	if a.sort != b.sort {
		panic(fmt.Sprintf("eq sort mismatch %v %v (%s %s)", a.sort, b.sort, a.op, b.op))
	}
	if a == b {
		return True
	}
	if a.IsConst() && b.IsConst() {
		if a.sort == BoolSort {
			return BoolConst(a == b)
		}
		return BoolConst(a.val.Cmp(b.val) == 0)
	}
	if a.sort == BoolSort {
		if a == True {
			return b
		}
		if b == True {
			return a
		}
		if a == False {
			return Not(b)
		}
		if b == False {
			return Not(a)
		}
	}
	// eq(ite(c, k1, x), k) with constants: push the comparison into the branches
	if b.IsConst() && a.op == "ite" && (a.args[1].IsConst() || a.args[2].IsConst()) {
		return Ite(a.args[0], Eq(a.args[1], b), Eq(a.args[2], b))
	}
	if a.IsConst() && b.op == "ite" && (b.args[1].IsConst() || b.args[2].IsConst()) {
		return Ite(b.args[0], Eq(b.args[1], a), Eq(b.args[2], a))
	}
	if a.id > b.id {
		a, b = b, a
	}
	return mk("=", BoolSort, a, b)
}

func Neq(a, b *Term) *Term { return Not(Eq(a, b)) }

// ---------- bit-vector operations ----------

func bvbin(op string, a, b *Term) *Term {
	if a.sort != b.sort {
		panic(fmt.Sprintf("%s sort mismatch %v %v", op, a.sort, b.sort))
	}
	w := a.sort
	if a.IsConst() && b.IsConst() {
		x, y := a.val, b.val
		r := new(big.Int)
		switch op {
		case "bvadd":
			return BVConstBig(r.Add(x, y), w)
		case "bvsub":
			return BVConstBig(r.Sub(x, y), w)
		case "bvmul":
			return BVConstBig(r.Mul(x, y), w)
		case "bvand":
			return BVConstBig(r.And(x, y), w)
		case "bvor":
			return BVConstBig(r.Or(x, y), w)
		case "bvxor":
			return BVConstBig(r.Xor(x, y), w)
		case "bvshl":
			if y.Cmp(big.NewInt(int64(w))) >= 0 {
				return BVConst(0, w)
			}
			return BVConstBig(r.Lsh(x, uint(y.Uint64())), w)
		case "bvlshr":
			if y.Cmp(big.NewInt(int64(w))) >= 0 {
				return BVConst(0, w)
			}
			return BVConstBig(r.Rsh(x, uint(y.Uint64())), w)
		case "bvashr":
			sx := a.SVal()
			sh := uint(w)
			if y.Cmp(big.NewInt(int64(w))) < 0 {
				sh = uint(y.Uint64())
			}
			return BVConstBig(r.Rsh(sx, sh), w)
		case "bvudiv":
			if y.Sign() != 0 {
				return BVConstBig(r.Div(x, y), w)
			}
		case "bvurem":
			if y.Sign() != 0 {
				return BVConstBig(r.Mod(x, y), w)
			}
		case "bvsdiv":
			if y.Sign() != 0 {
				return BVConstBig(r.Quo(a.SVal(), b.SVal()), w)
			}
		case "bvsrem":
			if y.Sign() != 0 {
				return BVConstBig(r.Rem(a.SVal(), b.SVal()), w)
			}
		}
	}
	isZero := func(t *Term) bool { return t.IsConst() && t.val.Sign() == 0 }
	switch op {
	case "bvadd":
		return bvSum(w, a, b)
	case "bvsub":
		if a == b {
			return BVConst(0, w)
		}
		return bvSum(w, a, BVNeg(b))
	case "bvmul":
		if isZero(a) || isZero(b) {
			return BVConst(0, w)
		}
	case "bvand":
		if isZero(a) || isZero(b) {
			return BVConst(0, w)
		}
		if a == b {
			return a
		}
		if b.IsConst() && b.val.Cmp(mask(w)) == 0 {
			return a
		}
		if a.IsConst() && a.val.Cmp(mask(w)) == 0 {
			return b
		}
	case "bvor", "bvxor":
		if isZero(a) {
			return b
		}
		if isZero(b) {
			return a
		}
	case "bvshl", "bvlshr", "bvashr":
		if isZero(b) {
			return a
		}
	}
	return mk(op, w, a, b)
}

func BVAdd(a, b *Term) *Term  { return bvbin("bvadd", a, b) }
func BVSub(a, b *Term) *Term  { return bvbin("bvsub", a, b) }
func BVMul(a, b *Term) *Term  { return bvbin("bvmul", a, b) }
func BVAnd(a, b *Term) *Term  { return bvbin("bvand", a, b) }
func BVOr(a, b *Term) *Term   { return bvbin("bvor", a, b) }
func BVXor(a, b *Term) *Term  { return bvbin("bvxor", a, b) }
func BVShl(a, b *Term) *Term  { return bvbin("bvshl", a, b) }
func BVLshr(a, b *Term) *Term { return bvbin("bvlshr", a, b) }
func BVAshr(a, b *Term) *Term { return bvbin("bvashr", a, b) }
func BVUdiv(a, b *Term) *Term { return bvbin("bvudiv", a, b) }
func BVUrem(a, b *Term) *Term { return bvbin("bvurem", a, b) }
func BVSdiv(a, b *Term) *Term { return bvbin("bvsdiv", a, b) }
func BVSrem(a, b *Term) *Term { return bvbin("bvsrem", a, b) }

func BVNot(a *Term) *Term {
	if a.IsConst() {
		return BVConstBig(new(big.Int).Xor(a.val, mask(a.sort)), a.sort)
	}
	if a.op == "bvnot" {
		return a.args[0]
	}
	return mk("bvnot", a.sort, a)
}

func BVNeg(a *Term) *Term {
	if a.IsConst() {
		return BVConstBig(new(big.Int).Neg(a.val), a.sort)
	}
	if a.op == "bvneg" {
		return a.args[0]
	}
	if a.op == "bvadd" {
		// -(x + y + c) = -x + -y + -c
		ns := make([]*Term, len(a.args))
		for i, x := range a.args {
			ns[i] = BVNeg(x)
		}
		return bvSum(a.sort, ns...)
	}
	return mk("bvneg", a.sort, a)
}

// bvSum builds a normalised sum: flattened, non-constant terms sorted by id,
// x and -x cancelled, a single constant last.
func bvSum(w Sort, xs ...*Term) *Term {
	c := new(big.Int)
	var ts []*Term
	var add func(t *Term)
	add = func(t *Term) {
		switch {
		case t.IsConst():
			c.Add(c, t.val)
		case t.op == "bvadd":
			for _, a := range t.args {
				add(a)
			}
		default:
			ts = append(ts, t)
		}
	}
	for _, x := range xs {
		if x.sort != w {
			panic(fmt.Sprintf("bvadd sort mismatch %v %v", x.sort, w))
		}
		add(x)
	}
	// cancel x with -x
	cnt := map[int]int{}
	byID := map[int]*Term{}
	for _, t := range ts {
		if t.op == "bvneg" {
			cnt[t.args[0].id]--
			byID[t.args[0].id] = t.args[0]
		} else {
			cnt[t.id]++
			byID[t.id] = t
		}
	}
	var ids []int
	for id := range cnt {
		ids = append(ids, id)
	}
	sort.Ints(ids)
	var out []*Term
	for _, id := range ids {
		n := cnt[id]
		t := byID[id]
		for ; n > 0; n-- {
			out = append(out, t)
		}
		for ; n < 0; n++ {
			out = append(out, mk("bvneg", w, t))
		}
	}
	cc := BVConstBig(c, w)
	if cc.val.Sign() != 0 {
		out = append(out, cc)
	}
	switch len(out) {
	case 0:
		return BVConst(0, w)
	case 1:
		return out[0]
	}
	return mk("bvadd", w, out...)
}

func bvcmp(op string, a, b *Term) *Term {
	if a.sort != b.sort {
		panic(fmt.Sprintf("%s sort mismatch %v %v", op, a.sort, b.sort))
	}
	if a.IsConst() && b.IsConst() {
		var c int
		if op[2] == 's' {
			c = a.SVal().Cmp(b.SVal())
		} else {
			c = a.val.Cmp(b.val)
		}
		switch op[3:] {
		case "lt":
			return BoolConst(c < 0)
		case "le":
			return BoolConst(c <= 0)
		}
	}
	if a == b {
		return BoolConst(op[3:] == "le")
	}
	if op == "bvule" && a.IsConst() && a.val.Sign() == 0 {
		return True
	}
	if op == "bvult" && b.IsConst() && b.val.Sign() == 0 {
		return False
	}
	return mk(op, BoolSort, a, b)
}

// only the strict comparisons are primitive: a <= b is written !(b < a), so
// that a branch condition and the negation of its complement are the same term
func BVUlt(a, b *Term) *Term { return bvcmp("bvult", a, b) }
func BVUle(a, b *Term) *Term { return Not(bvcmp("bvult", b, a)) }
func BVSlt(a, b *Term) *Term { return bvcmp("bvslt", a, b) }
func BVSle(a, b *Term) *Term { return Not(bvcmp("bvslt", b, a)) }

func Extract(a *Term, hi, lo int) *Term {
	w := Sort(hi - lo + 1)
	if lo == 0 && w == a.sort {
		return a
	}
	if a.IsConst() {
		return BVConstBig(new(big.Int).Rsh(a.val, uint(lo)), w)
	}
	// extract of zero_extend / sign_extend within the original
	if (a.op == "zero_extend" || a.op == "sign_extend") && hi < int(a.args[0].sort) {
		return Extract(a.args[0], hi, lo)
	}
	if a.op == "zero_extend" && lo >= int(a.args[0].sort) {
		return BVConst(0, w)
	}
	if a.op == "concat" {
		lw := int(a.args[1].sort)
		if hi < lw {
			return Extract(a.args[1], hi, lo)
		}
		if lo >= lw {
			return Extract(a.args[0], hi-lw, lo-lw)
		}
	}
	return TS.intern(&Term{op: "extract", sort: w, args: []*Term{a}, hi: hi, lo: lo})
}

func ZeroExt(a *Term, to Sort) *Term {
	if to == a.sort {
		return a
	}
	if to < a.sort {
		return Extract(a, int(to)-1, 0)
	}
	if a.IsConst() {
		return BVConstBig(a.val, to)
	}
	if a.op == "zero_extend" {
		return ZeroExt(a.args[0], to)
	}
	return TS.intern(&Term{op: "zero_extend", sort: to, args: []*Term{a}, hi: int(to - a.sort)})
}

func SignExt(a *Term, to Sort) *Term {
	if to == a.sort {
		return a
	}
	if to < a.sort {
		return Extract(a, int(to)-1, 0)
	}
	if a.IsConst() {
		return BVConstBig(a.SVal(), to)
	}
	if a.op == "zero_extend" { // already non-negative
		return ZeroExt(a.args[0], to)
	}
	return TS.intern(&Term{op: "sign_extend", sort: to, args: []*Term{a}, hi: int(to - a.sort)})
}

func Concat(a, b *Term) *Term {
	if a.IsConst() && b.IsConst() {
		v := new(big.Int).Lsh(a.val, uint(b.sort))
		v.Or(v, b.val)
		return BVConstBig(v, a.sort+b.sort)
	}
	return mk("concat", a.sort+b.sort, a, b)
}

// ---------- printing ----------

func (t *Term) head() string {
	switch t.op {
	case "true", "false":
		return t.op
	case "const":
		if int(t.sort)%4 == 0 {
			return fmt.Sprintf("#x%0*s", int(t.sort)/4, t.val.Text(16))
		}
		return fmt.Sprintf("#b%0*s", int(t.sort), t.val.Text(2))
	case "var":
		return quoteSym(t.name)
	}
	return ""
}

func quoteSym(s string) string {
	return "|" + s + "|"
}

// Printer emits a set of terms as SMT-LIB with one define-fun per shared node.
type Printer struct {
	sb      strings.Builder
	defined map[int]string
	decl    map[string]bool
	order   []string
}

func NewPrinter() *Printer {
	return &Printer{defined: map[int]string{}, decl: map[string]bool{}}
}

func (p *Printer) declare(name string) {
	if p.decl[name] {
		return
	}
	p.decl[name] = true
	d := TS.ufs[name]
	var as []string
	for _, a := range d.args {
		as = append(as, a.String())
	}
	fmt.Fprintf(&p.sb, "(declare-fun %s (%s) %s)\n", quoteSym(name), strings.Join(as, " "), d.ret)
}

// Ref returns an expression naming t, emitting definitions as needed (iterative, post-order).
func (p *Printer) Ref(t *Term) string {
	if h := t.head(); h != "" {
		if t.op == "var" {
			p.declare(t.name)
		}
		return h
	}
	if r, ok := p.defined[t.id]; ok {
		return r
	}
	// iterative DFS
	type frame struct {
		t *Term
		i int
	}
	stack := []frame{{t, 0}}
	for len(stack) > 0 {
		f := &stack[len(stack)-1]
		if _, ok := p.defined[f.t.id]; ok {
			stack = stack[:len(stack)-1]
			continue
		}
		if f.i < len(f.t.args) {
			a := f.t.args[f.i]
			f.i++
			if a.head() == "" {
				if _, ok := p.defined[a.id]; !ok {
					stack = append(stack, frame{a, 0})
				}
			} else if a.op == "var" {
				p.declare(a.name)
			}
			continue
		}
		cur := f.t
		stack = stack[:len(stack)-1]
		var as []string
		for _, a := range cur.args {
			if h := a.head(); h != "" {
				as = append(as, h)
			} else {
				as = append(as, p.defined[a.id])
			}
		}
		var body string
		switch cur.op {
		case "uf":
			p.declare(cur.name)
			body = fmt.Sprintf("(%s %s)", quoteSym(cur.name), strings.Join(as, " "))
		case "extract":
			body = fmt.Sprintf("((_ extract %d %d) %s)", cur.hi, cur.lo, as[0])
		case "zero_extend", "sign_extend":
			body = fmt.Sprintf("((_ %s %d) %s)", cur.op, cur.hi, as[0])
		default:
			if cur.op == "bvadd" && len(as) > 2 {
				acc := as[0]
				for _, x := range as[1:] {
					acc = fmt.Sprintf("(bvadd %s %s)", acc, x)
				}
				body = acc
			} else {
				body = fmt.Sprintf("(%s %s)", cur.op, strings.Join(as, " "))
			}
		}
		name := fmt.Sprintf("t%d", cur.id)
		fmt.Fprintf(&p.sb, "(define-fun %s () %s %s)\n", name, cur.sort, body)
		p.defined[cur.id] = name
	}
	return p.defined[t.id]
}

func (p *Printer) Assert(t *Term) {
	r := p.Ref(t)
	fmt.Fprintf(&p.sb, "(assert %s)\n", r)
}

func (p *Printer) String() string { return p.sb.String() }

// ---------- traversal helpers ----------

// Subst replaces variables by terms (by var name), rebuilding with simplification.
func Subst(t *Term, m map[string]*Term) *Term {
	memo := map[int]*Term{}
	var rec func(t *Term) *Term
	rec = func(t *Term) *Term {
		if r, ok := memo[t.id]; ok {
			return r
		}
		var r *Term
		switch {
		case t.op == "var":
			if x, ok := m[t.name]; ok {
				r = x
			} else {
				r = t
			}
		case len(t.args) == 0:
			r = t
		default:
			changed := false
			na := make([]*Term, len(t.args))
			for i, a := range t.args {
				na[i] = rec(a)
				if na[i] != a {
					changed = true
				}
			}
			if !changed {
				r = t
			} else {
				r = rebuild(t, na)
			}
		}
		memo[t.id] = r
		return r
	}
	return rec(t)
}

func rebuild(t *Term, a []*Term) *Term {
	switch t.op {
	case "not":
		return Not(a[0])
	case "and":
		return And(a...)
	case "or":
		return Or(a...)
	case "ite":
		return Ite(a[0], a[1], a[2])
	case "=":
		return Eq(a[0], a[1])
	case "bvadd":
		return bvSum(t.sort, a...)
	case "bvsub", "bvmul", "bvand", "bvor", "bvxor", "bvshl", "bvlshr", "bvashr", "bvudiv", "bvurem", "bvsdiv", "bvsrem":
		return bvbin(t.op, a[0], a[1])
	case "bvult", "bvule", "bvslt", "bvsle":
		return bvcmp(t.op, a[0], a[1])
	case "bvnot":
		return BVNot(a[0])
	case "bvneg":
		return BVNeg(a[0])
	case "extract":
		return Extract(a[0], t.hi, t.lo)
	case "zero_extend":
		return ZeroExt(a[0], t.sort)
	case "sign_extend":
		return SignExt(a[0], t.sort)
	case "concat":
		return Concat(a[0], a[1])
	case "uf":
		return TS.intern(&Term{op: "uf", name: t.name, sort: t.sort, args: a})
	}
	panic("rebuild: unknown op " + t.op)
}

// Walk visits every node of the DAG once.
func Walk(t *Term, seen map[int]bool, f func(*Term)) {
	stack := []*Term{t}
	for len(stack) > 0 {
		x := stack[len(stack)-1]
		stack = stack[:len(stack)-1]
		if seen[x.id] {
			continue
		}
		seen[x.id] = true
		f(x)
		stack = append(stack, x.args...)
	}
}

func (t *Term) String() string {
	if h := t.head(); h != "" {
		return h
	}
	var as []string
	for _, a := range t.args {
		as = append(as, a.String())
	}
	switch t.op {
	case "uf":
		return fmt.Sprintf("(%s %s)", t.name, strings.Join(as, " "))
	case "extract":
		return fmt.Sprintf("((_ extract %d %d) %s)", t.hi, t.lo, as[0])
	case "zero_extend", "sign_extend":
		return fmt.Sprintf("((_ %s %d) %s)", t.op, t.hi, as[0])
	}
	return fmt.Sprintf("(%s %s)", t.op, strings.Join(as, " "))
}
