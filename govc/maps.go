package main

import (
	"go/token"
	"fmt"
	"go/types"

	"golang.org/x/tools/go/ssa"
)

// Maps: a reference plus three memories
//   map:<T>/dom  (ref, key leaves) -> Bool
//   map:<T>/val/<leaf> (ref, key leaves) -> leaf
//   map:<T>/len  (ref) -> Int
// String keys are abstracted by an uninterpreted identity of the string value.

func (e *Engine) mapKeySorts(mt *types.Map) []Sort {
	ks := []Sort{RefSort}
	if isStringType(mt.Key()) {
		return append(ks, 64)
	}
	for _, l := range leavesOf(mt.Key()) {
		ks = append(ks, l.sort)
	}
	return ks
}

func isStringType(t types.Type) bool {
	b, ok := t.Underlying().(*types.Basic)
	return ok && b.Info()&types.IsString != 0
}

func (e *Engine) mapKey(st *State, mt *types.Map, ref *Term, k Value) []*Term {
	if isStringType(mt.Key()) {
		e.strKeysUsed = true
		return []*Term{ref, e.strID(st, k.T)}
	}
	return append([]*Term{ref}, e.flat(k, mt.Key())...)
}

// strID abstracts the content of a string by an uninterpreted 64-bit identity.
func (e *Engine) strID(st *State, s []*Term) *Term {
	if s[0].op == "uf" && s[0].name == "strkey.r" {
		return s[0].args[0] // the key bound by vMapAll
	}
	if s[0].IsConst() && s[2].IsConst() {
		if lit, ok := e.litByID[s[0].val.Uint64()]; ok && s[1].IsConst() {
			o, n := s[1].val.Uint64(), s[2].val.Uint64()
			if o+n <= uint64(len(lit)) {
				sub := lit[o : o+n]
				id, ok := e.strLitIDs[sub]
				if !ok {
					id = uint64(len(e.strLitIDs) + 1)
					e.strLitIDs[sub] = id
				}
				return BVConstU(0xD000000000000000+id, 64)
			}
		}
		if s[2].val.Sign() == 0 {
			return BVConst(0, 64)
		}
	}
	// string(b) of a byte slice: identified by the source bytes, so that two
	// conversions of the same bytes (at the same memory state) are the same key
	reg := s[0]
	if reg.op == "ite" && reg.args[1].IsConst() && reg.args[1].val.Sign() == 0 {
		reg = reg.args[2]
	}
	if reg.IsConst() && s[1].IsConst() && s[1].val.Sign() == 0 {
		if pv, ok := e.strProv[reg.val.Uint64()]; ok && pv.n == s[2] {
			id := UF(fmt.Sprintf("strid.src.m%d", pv.mem), 64, pv.r, pv.o, pv.n)
			st.assume(Eq(Eq(s[2], BVConst(0, IntSort)), Eq(id, BVConst(0, 64))))
			return id
		}
	}
	m := e.mem(st, byteMemName, elemKS, 8)
	id := UF(fmt.Sprintf("strid.m%d", m.id), 64, s[0], s[1], s[2])
	// the empty string has identity 0
	st.assume(Eq(Eq(s[2], BVConst(0, IntSort)), Eq(id, BVConst(0, 64))))
	return id
}

func mapMemNames(mt types.Type) (dom, ln string, vals []string) {
	k := typeKey(mt.Underlying())
	m := mt.Underlying().(*types.Map)
	dom = "map:" + k + "/dom"
	ln = "map:" + k + "/len"
	for _, l := range leavesOf(m.Elem()) {
		vals = append(vals, "map:"+k+"/val/"+l.path)
	}
	return
}

func (e *Engine) mapMods(t types.Type, set map[string]bool) {
	mt := t.Underlying().(*types.Map)
	dom, ln, vals := mapMemNames(t)
	ks := e.mapKeySorts(mt)
	noteMem(dom, ks, BoolSort)
	noteMem(ln, objKS, IntSort)
	set[dom] = true
	set[ln] = true
	for i, l := range leavesOf(mt.Elem()) {
		noteMem(vals[i], ks, l.sort)
		set[vals[i]] = true
	}
}

func (e *Engine) mapInit(st *State, t types.Type, ref *Term) {
	// a fresh map is empty: its dom is false everywhere. Since ref is a fresh
	// constant, we express this with a Fill-like node keyed on the ref.
	dom, ln, _ := mapMemNames(t)
	mt := t.Underlying().(*types.Map)
	ks := e.mapKeySorts(mt)
	m := e.mem(st, dom, ks, BoolSort)
	st.mems[dom] = m.Fill(ref, False)
	st.mems[ln] = e.mem(st, ln, objKS, IntSort).Write([]*Term{ref}, BVConst(0, IntSort))
}

func (e *Engine) mapLen(st *State, t types.Type, ref *Term) *Term {
	_, ln, _ := mapMemNames(t)
	n := e.mem(st, ln, objKS, IntSort).Read([]*Term{ref})
	st.assume(And(BVSle(BVConst(0, IntSort), n), BVSlt(n, BVConstU(1<<48, IntSort))))
	st.assume(Implies(Eq(ref, BVConst(0, RefSort)), Eq(n, BVConst(0, IntSort))))
	return n
}

func (e *Engine) mapRead(st *State, t types.Type, ref *Term, k Value) (ok *Term, val []*Term) {
	mt := t.Underlying().(*types.Map)
	dom, _, vals := mapMemNames(t)
	ks := e.mapKeySorts(mt)
	keys := e.mapKey(st, mt, ref, k)
	ok = And(Neq(ref, BVConst(0, RefSort)), e.mem(st, dom, ks, BoolSort).Read(keys))
	ls := leavesOf(mt.Elem())
	zs := zeroTerms(mt.Elem())
	val = make([]*Term, len(ls))
	raw := make([]*Term, len(ls))
	for i, l := range ls {
		raw[i] = e.mem(st, vals[i], ks, l.sort).Read(keys)
		val[i] = Ite(ok, raw[i], zs[i])
	}
	st.assume(Implies(ok, wfAssumptions(raw, mt.Elem(), true)))
	// a map holding a key is not empty
	st.assume(Implies(ok, BVSle(BVConst(1, IntSort), e.mapLen(st, t, ref))))
	return
}

func (e *Engine) lookup(fr *Frame, st *State, x *ssa.Lookup) {
	xv := e.val(fr, x.X)
	if mt, ok := x.X.Type().Underlying().(*types.Map); ok {
		okT, val := e.mapRead(st, x.X.Type(), xv.term(), e.val(fr, x.Index))
		if x.CommaOk {
			fr.regs[x] = Value{T: append(val, okT)}
		} else {
			fr.regs[x] = e.unflat(val, mt.Elem())
		}
		return
	}
	// string index
	idx := e.intVal(fr, x.Index)
	e.oblige(fr, st, "index", x, And(BVSle(BVConst(0, IntSort), idx), BVSlt(idx, xv.T[2])), "string index out of range")
	l := leavesOf(types.Typ[types.Uint8])[0]
	fr.regs[x] = scalar(e.memRead(st, byteMemName, elemKS, l, []*Term{xv.T[0], BVAdd(xv.T[1], idx)}))
}

func (e *Engine) mapUpdate(fr *Frame, st *State, x *ssa.MapUpdate) {
	t := x.Map.Type()
	mt := t.Underlying().(*types.Map)
	ref := e.val(fr, x.Map).term()
	e.oblige(fr, st, "nilmap", x, Neq(ref, BVConst(0, RefSort)), "assignment to entry in nil map")
	dom, ln, vals := mapMemNames(t)
	ks := e.mapKeySorts(mt)
	keys := e.mapKey(st, mt, ref, e.val(fr, x.Key))
	dm := e.mem(st, dom, ks, BoolSort)
	was := dm.Read(keys)
	n := e.mapLen(st, t, ref)
	st.mems[ln] = e.mem(st, ln, objKS, IntSort).Write([]*Term{ref}, Ite(was, n, BVAdd(n, BVConst(1, IntSort))))
	st.mems[dom] = dm.Write(keys, True)
	v := e.flat(e.val(fr, x.Value), mt.Elem())
	e.borrowCheck(fr, st, v, mt.Elem(), x, "a map entry")
	for i, l := range leavesOf(mt.Elem()) {
		st.mems[vals[i]] = e.mem(st, vals[i], ks, l.sort).Write(keys, v[i])
	}
	e.bumpAllocsIf(st, Not(was))
}

func (e *Engine) bumpAllocsIf(st *State, c *Term) {
	if a, ok := st.ghost["allocs"]; ok {
		st.ghost["allocs"] = Ite(c, BVAdd(a, BVConst(1, 64)), a)
	}
}

func (e *Engine) mapDelete(fr *Frame, st *State, t types.Type, ref *Term, k Value) {
	mt := t.Underlying().(*types.Map)
	dom, ln, _ := mapMemNames(t)
	ks := e.mapKeySorts(mt)
	keys := e.mapKey(st, mt, ref, k)
	dm := e.mem(st, dom, ks, BoolSort)
	was := And(Neq(ref, BVConst(0, RefSort)), dm.Read(keys))
	n := e.mapLen(st, t, ref)
	st.mems[ln] = e.mem(st, ln, objKS, IntSort).Write([]*Term{ref}, Ite(was, BVSub(n, BVConst(1, IntSort)), n))
	st.mems[dom] = dm.Write(keys, False)
}

// ---------- range ----------

type iterInfo struct {
	isMap bool
	t     types.Type
	x     Value
	len0  *Term // map length at range start, when it bounds the iteration count
	seen  string // name of the ghost memory "this key was produced already"
	seen0 string // its initial contents (all false)
}

// madeHere: v is always a map created by a make in this function (directly, or through a local
// variable that only ever holds such maps) and is not the value `other`.
func madeHere(v, other ssa.Value) bool {
	if _, ok := v.(*ssa.MakeMap); ok {
		return v != other
	}
	ld, ok := v.(*ssa.UnOp)
	if !ok || ld.Op != token.MUL {
		return false
	}
	cell, ok := ld.X.(*ssa.Alloc)
	if !ok || cell.Referrers() == nil {
		return false
	}
	if old, ok := other.(*ssa.UnOp); ok && old.Op == token.MUL && old.X == cell {
		return false
	}
	for _, r := range *cell.Referrers() {
		switch u := r.(type) {
		case *ssa.Store:
			if u.Addr != cell {
				return false // the cell's address escapes into memory
			}
			mk, ok := u.Val.(*ssa.MakeMap)
			if !ok || mk.Referrers() == nil {
				return false
			}
			for _, mr := range *mk.Referrers() {
				if _, isDbg := mr.(*ssa.DebugRef); mr != r && !isDbg {
					return false // the new map is also kept somewhere else
				}
			}
		case *ssa.UnOp:
			if u.Op != token.MUL || u.Referrers() == nil {
				return false
			}
			// the loaded map is only written, read, measured or returned: it is not stored anywhere
			for _, lr := range *u.Referrers() {
				switch w := lr.(type) {
				case *ssa.MapUpdate:
					if w.Map != u {
						return false
					}
				case *ssa.Lookup, *ssa.Return, *ssa.DebugRef:
				case *ssa.Store:
					// copied into the result variable (a local that is only loaded to be returned)
					rc, ok := w.Addr.(*ssa.Alloc)
					if !ok || rc.Heap || w.Val != u || !onlyReturned(rc) {
						return false
					}
				default:
					return false
				}
			}
		case *ssa.DebugRef:
		default:
			return false
		}
	}
	return true
}

// onlyReturned: the local cell is only stored to and loaded for a return.
func onlyReturned(cell *ssa.Alloc) bool {
	if cell.Referrers() == nil {
		return false
	}
	for _, r := range *cell.Referrers() {
		switch u := r.(type) {
		case *ssa.Store:
			if u.Addr != cell {
				return false
			}
		case *ssa.UnOp:
			if u.Op != token.MUL || u.Referrers() == nil {
				return false
			}
			for _, lr := range *u.Referrers() {
				switch lr.(type) {
				case *ssa.Return, *ssa.DebugRef:
				default:
					return false
				}
			}
		case *ssa.DebugRef:
		default:
			return false
		}
	}
	return true
}

func fnUpdatesMap(fn *ssa.Function, t types.Type, ranged ssa.Value) bool {
	for _, b := range fn.Blocks {
		for _, in := range b.Instrs {
			switch u := in.(type) {
			case *ssa.MapUpdate:
				if types.Identical(u.Map.Type().Underlying(), t.Underlying()) && !madeHere(u.Map, ranged) {
					return true
				}
			case ssa.CallInstruction:
				if _, isBuiltin := u.Common().Value.(*ssa.Builtin); !isBuiltin {
					return true // a callee might insert
				}
			}
		}
	}
	return false
}

func (e *Engine) rangeInit(fr *Frame, st *State, x *ssa.Range) {
	v := e.val(fr, x.X)
	if _, ok := x.X.Type().Underlying().(*types.Map); ok {
		it := &iterInfo{isMap: true, t: x.X.Type(), x: v}
		// without insertions into a map of this type in the function, the loop visits at most
		// len(m) entries (entries deleted during the iteration are not visited)
		if !fnUpdatesMap(x.Parent(), x.X.Type(), x.X) {
			it.len0 = e.mapLen(st, x.X.Type(), v.term())
		}
		// ghost: the set of keys the iteration has produced so far (Go produces each entry at
		// most once); empty at the start
		it.seen = seenMemName(fr, x)
		it.seen0 = FreshName("seen0." + x.Name())
		ks := e.mapKeySorts(x.X.Type().Underlying().(*types.Map))
		noteMem(it.seen, ks, BoolSort)
		st.mems[it.seen] = NewBaseMem(it.seen, ks, BoolSort, it.seen0)
		fr.iters[x] = it
		st.ghost[iterKey(fr, x)+".n"] = BVConst(0, IntSort)
		fr.regs[x] = Value{T: []*Term{BVConst(0, RefSort)}}
		return
	}
	if isStringType(x.X.Type()) {
		fr.iters[x] = &iterInfo{isMap: false, t: x.X.Type(), x: v}
		st.ghost[iterKey(fr, x)] = BVConst(0, 64)
		fr.regs[x] = Value{T: []*Term{BVConst(0, RefSort)}}
		return
	}
	unsup("range over %s", x.X.Type())
}

func seenMemName(fr *Frame, x *ssa.Range) string {
	return fmt.Sprintf("map:iter.%d.%s/seen", fr.id, x.Name())
}

// seenRead: has the iteration produced key k already? (reads of the initial contents are false)
func (e *Engine) seenRead(st *State, it *iterInfo, keys []*Term) *Term {
	ks := e.mapKeySorts(it.t.Underlying().(*types.Map))
	m := e.mem(st, it.seen, ks, BoolSort)
	st.assume(Not(UF(it.seen0, BoolSort, keys...)))
	return m.Read(keys)
}

func iterKey(fr *Frame, x *ssa.Range) string { return fmt.Sprintf("iter.%d.%s", fr.id, x.Name()) }

// rangeNextString: the iterator position advances by the width (1..4) of the
// decoded rune; ASCII bytes decode to themselves with width 1.
func (e *Engine) rangeNextString(fr *Frame, st *State, x *ssa.Next, it *iterInfo) {
	rg := x.Iter.(*ssa.Range)
	key := iterKey(fr, rg)
	pos, ok := st.ghost[key]
	if !ok {
		pos = FreshVar("iterpos", 64)
	}
	s := it.x.T
	zero := BVConst(0, IntSort)
	st.assume(And(BVSle(zero, pos), BVSle(pos, s[2])))
	has := BVSlt(pos, s[2])
	l := leavesOf(types.Typ[types.Uint8])[0]
	b0 := e.memRead(st, byteMemName, elemKS, l, []*Term{s[0], BVAdd(s[1], pos)})
	w := FreshVar("runew", IntSort)
	r := FreshVar("rune", 32)
	ascii := BVUlt(b0, BVConst(0x80, 8))
	st.assume(And(BVSle(BVConst(1, IntSort), w), BVSle(w, BVConst(4, IntSort))))
	st.assume(Implies(has, BVSle(BVAdd(pos, w), s[2])))
	st.assume(Implies(ascii, And(Eq(w, BVConst(1, IntSort)), Eq(r, ZeroExt(b0, 32)))))
	st.assume(Implies(Not(ascii), And(BVUle(BVConst(0x80, 32), r), BVUle(r, BVConst(0x10FFFF, 32)))))
	st.ghost[key] = Ite(has, BVAdd(pos, w), pos)
	tt := x.Type().(*types.Tuple)
	out := []*Term{has}
	if nLeaves(tt.At(1).Type()) == 1 {
		out = append(out, Ite(has, pos, zero))
	}
	if nLeaves(tt.At(2).Type()) == 1 {
		out = append(out, Ite(has, r, BVConst(0, 32)))
	}
	fr.regs[x] = Value{T: out}
}

func (e *Engine) rangeNext(fr *Frame, st *State, x *ssa.Next) {
	it := fr.iters[x.Iter.(*ssa.Range)]
	if it == nil {
		unsup("next on unknown iterator")
	}
	if !it.isMap {
		e.rangeNextString(fr, st, x, it)
		return
	}
	mt := it.t.Underlying().(*types.Map)
	ref := it.x.term()
	ok := FreshVar("range.ok", BoolSort)
	kts := freshTerms("range.key", mt.Key())
	st.assume(wfAssumptions(kts, mt.Key(), false))
	k := e.unflat(kts, mt.Key())
	present, val := e.mapRead(st, it.t, ref, k)
	// ok => key is in the map (as it is now: Go permits deletion during iteration)
	st.assume(Implies(ok, present))
	st.assume(Implies(ok, Neq(ref, BVConst(0, RefSort))))
	if it.seen != "" {
		// each entry is produced at most once
		keys := e.mapKey(st, mt, ref, k)
		was := e.seenRead(st, it, keys)
		st.assume(Implies(ok, Not(was)))
		ks := e.mapKeySorts(mt)
		st.mems[it.seen] = e.mem(st, it.seen, ks, BoolSort).Write(keys, Or(was, ok))
	}
	nkey := iterKey(fr, x.Iter.(*ssa.Range)) + ".n"
	cnt, has := st.ghost[nkey]
	if !has {
		cnt = FreshVar("iter.n", IntSort)
	}
	st.assume(BVSle(BVConst(0, IntSort), cnt))
	if it.len0 != nil {
		st.assume(Implies(ok, BVSlt(cnt, it.len0)))
	}
	st.ghost[nkey] = Ite(ok, BVAdd(cnt, BVConst(1, IntSort)), cnt)
	ts := []*Term{ok}
	tt := x.Type().(*types.Tuple)
	if nLeaves(tt.At(1).Type()) > 0 {
		zk := zeroTerms(mt.Key())
		for i := range kts {
			ts = append(ts, Ite(ok, kts[i], zk[i]))
		}
	}
	if nLeaves(tt.At(2).Type()) > 0 {
		zv := zeroTerms(mt.Elem())
		for i := range val {
			ts = append(ts, Ite(ok, val[i], zv[i]))
		}
	}
	fr.regs[x] = Value{T: ts}
}
