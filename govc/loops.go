package main

import (
	"sort"
	"go/constant"
	"os"
	"fmt"
	"go/token"
	"go/types"
	"strings"

	"golang.org/x/tools/go/ssa"
)

type loopHead struct {
	frameRegion, frameLo, frameHi *Term // declared byte frame of the loop (verif_frame_), nil if none
	frameSeq  uint64
	headMem   *Mem
	dec       *Term // value of the decreases measure at the head (nil if none)
	names     map[string]bool
	entryVals map[int]*Term // vAtEntry values, by call-site ordinal
	entrySlices map[int][]*Term
	entrySeq  uint64
	classCells []classCell // loop-carried slice variables whose allocation class is kept by the loop (checked at back edges)
}

// classCell: the region leaf `leaf` of local cell `key` stays within allocation classes `mask`.
type classCell struct {
	key  cellKey
	leaf int
	mask uint16
	name string
}

type loopEvalCtx struct {
	head  *loopHead
	entry bool
}

// the loop whose invariant / measure is being evaluated (for vRangeSeen)
type loopEvalWhere struct {
	fr *Frame
	li *loopInfo
	st *State
}

func (e *Engine) loopKey(fr *Frame, li *loopInfo) string {
	return fmt.Sprintf("%s_%d", harnessSuffix(fr.fn), li.ord)
}

func (e *Engine) unrollCount(fr *Frame, li *loopInfo) int {
	if fn, ok := e.unrolls[e.loopKey(fr, li)]; ok {
		// the function body is `return N`
		for _, b := range fn.Blocks {
			for _, in := range b.Instrs {
				switch x := in.(type) {
				case *ssa.Return:
					if len(x.Results) == 1 {
						if c, ok := x.Results[0].(*ssa.Const); ok {
							return int(c.Int64())
						}
					}
				case *ssa.Store:
					if c, ok := x.Val.(*ssa.Const); ok && c.Value != nil {
						return int(c.Int64())
					}
				}
			}
		}
	}
	return 0
}

// localByName finds the cell of the source variable `name` live in frame fr.
func (e *Engine) localByName(fr *Frame, st *State, name string, before token.Pos) (*ssa.Alloc, bool) {
	var best *ssa.Alloc
	for _, a := range fr.fn.Locals {
		if a.Comment != name {
			continue
		}
		if _, ok := st.cells[cellKey{fr.id, a}]; !ok {
			if _, ok2 := fr.regs[a]; !ok2 {
				continue
			}
		}
		if best == nil || (a.Pos() > best.Pos() && (before == token.NoPos || a.Pos() < before)) {
			best = a
		}
	}
	return best, best != nil
}

// evalLoopFn evaluates an invariant / measure function on the current values of
// the variables named by its parameters.
func (e *Engine) evalLoopFn(fr *Frame, st *State, f *ssa.Function, li *loopInfo) Value {
	savedWhere := e.loopWhere
	e.loopWhere = &loopEvalWhere{fr: fr, li: li}
	defer func() { e.loopWhere = savedWhere }()
	args := make([]Value, len(f.Params))
	for i, p := range f.Params {
		if p.Name() == "rangecount" {
			// number of completed iterations of a range-over-map loop
			rg := loopMapRange(li)
			if os.Getenv("GOVC_DEBUG") != "" {
				fmt.Fprintf(os.Stderr, "rangecount: loop %d head %s blocks %d rg=%v\n", li.ord, li.head, len(li.blocks), rg)
			}
			if rg != nil {
				n, ok := st.ghost[iterKey(fr, rg)+".n"]
				if !ok {
					n = BVConst(0, IntSort)
				}
				args[i] = scalar(n)
				continue
			}
		}
		a, ok := e.localByName(fr, st, p.Name(), blockPos(li.head))
		if p.Name() == "rangeindex" {
			// the hidden index of THIS loop: the cell its head block loads and increments
			for _, in := range li.head.Instrs {
				if ld, isLd := in.(*ssa.UnOp); isLd && ld.Op == token.MUL {
					if al, isAl := ld.X.(*ssa.Alloc); isAl && al.Comment == "rangeindex" {
						a, ok = al, true
						break
					}
				}
			}
		}
		if !ok {
			panic(contractError{fmt.Sprintf("%s: parameter %q does not name a live variable of %s", f.Name(), p.Name(), fnName(fr.fn))})
		}
		t := a.Type().(*types.Pointer).Elem()
		if !types.Identical(t, p.Type()) {
			panic(contractError{fmt.Sprintf("%s: parameter %q has type %s, variable has type %s", f.Name(), p.Name(), p.Type(), t)})
		}
		av := fr.regs[a]
		if av.A == nil {
			panic("loop var without address")
		}
		args[i] = e.load(fr, st, av.A, nil)
	}
	nf := e.newFrame(f, fr)
	nf.spec = true
	nf.prefix = fr.prefix
	nf.hctx = nil
	tmp := st.clone()
	vals := e.finishCall(fr, tmp, nf, args, nil)
	// spec evaluation is pure; keep only new facts (wf assumptions of reads)
	st.pc = tmp.pc
	return vals[0]
}

// loopMapRange: the Range instruction iterated by the loop's Next, for range-over-map loops.
func loopMapRange(li *loopInfo) *ssa.Range {
	for b := range li.blocks {
		for _, in := range b.Instrs {
			if nx, ok := in.(*ssa.Next); ok && !nx.IsString {
				if rg, ok := nx.Iter.(*ssa.Range); ok {
					if _, isMap := rg.X.Type().Underlying().(*types.Map); isMap {
						return rg
					}
				}
			}
		}
	}
	return nil
}

type contractError struct{ msg string }

func (c contractError) Error() string { return "contract error: " + c.msg }

// modifiedCells lists the local cells stored to inside the loop.
func loopStoredAllocs(li *loopInfo) map[*ssa.Alloc]bool {
	res := map[*ssa.Alloc]bool{}
	for b := range li.blocks {
		for _, in := range b.Instrs {
			if s, ok := in.(*ssa.Store); ok {
				if a := rootAlloc(s.Addr); a != nil {
					res[a] = true
				}
			}
		}
	}
	return res
}

func rootAlloc(v ssa.Value) *ssa.Alloc {
	for {
		switch x := v.(type) {
		case *ssa.Alloc:
			return x
		case *ssa.FieldAddr:
			v = x.X
		case *ssa.IndexAddr:
			v = x.X
		default:
			return nil
		}
	}
}

func (e *Engine) enterLoop(fr *Frame, li *loopInfo, cur *State) *State {
	key := e.loopKey(fr, li)
	inv := e.invs[key]
	if inv == nil && !isRangeLoop(li) {
		// a loop without contract is only a problem on a path that can be taken
		if e.pathInfeasible(cur) {
			cur.kill()
			return cur
		}
		unsup("loop %d of %s has no invariant (%s) and no unroll bound", li.ord, fnName(fr.fn), "verif_inv_"+key)
	}
	if inv == nil {
		inv = e.trueInv
	}
	if fr.heads == nil {
		fr.heads = map[*loopInfo]*loopHead{}
	}
	// 1. invariant holds on entry
	h := &loopHead{entryVals: map[int]*Term{}, entrySlices: map[int][]*Term{}}
	fr.heads[li] = h
	pre := cur.clone()
	e.loopEval = &loopEvalCtx{head: h, entry: true}
	iv := e.evalLoopFn(fr, pre, inv, li)
	e.loopEval = nil
	e.obligeNamed(fr, pre, "inv-init", li, iv.term(), fmt.Sprintf("loop %d invariant holds on entry", li.ord))

	// 2. havoc what the loop may change
	st := cur.clone()
	stored := loopStoredAllocs(li)
	for a := range stored {
		k := cellKey{fr.id, a}
		if _, ok := st.cells[k]; !ok {
			continue // declared inside the loop
		}
		t := a.Type().(*types.Pointer).Elem()
		ts := freshTerms(fmt.Sprintf("loop%d.%s", e.loopSeq+1, a.Comment), t)
		st.assume(wfAssumptions(ts, t, true))
		e.assumeNotFuture(st, ts, t)
		// a slice variable carried around the loop keeps the allocation class it has on entry
		// (e.g. "freshly allocated": list = append(list, x)); assumed here, proved at the back edges
		old := st.cells[k]
		for i, l := range leavesOf(t) {
			if l.kind != LRegion || i >= len(old) || ts[i].op != "var" {
				continue
			}
			if callAllocOrNil(old[i]) && !(old[i].IsConst() && old[i].val.Sign() == 0) {
				regionClass[ts[i].id] = 1<<15 | 1
				callAllocVars[ts[i].id] = true
				st.assume(Or(Eq(ts[i], BVConst(0, RegionSort)), BVUlt(BVConstU(0xF000000000000000+callAllocBase, RegionSort), ts[i])))
				h.classCells = append(h.classCells, classCell{k, i, 0, a.Comment})
			}
		}
		st.cells[k] = ts
		delete(st.clos, k)
		delete(st.caddr, k)
	}
	e.loopSeq++
	loopID := e.loopSeq
	mods := e.loopModifiedMems(fr, li)
	if rg := loopMapRange(li); rg != nil {
		if it := fr.iters[rg]; it != nil && it.seen != "" {
			mods = append(mods, it.seen)
		}
	}
	havocAll, havocHeap := false, false
	var pats []string
	{
		var plain []string
		for _, name := range mods {
			switch {
			case name == "*":
				havocAll = true
			case name == "*heap":
				havocHeap = true
			case strings.HasPrefix(name, "~"):
				pats = append(pats, name[1:])
			default:
				plain = append(plain, name)
			}
		}
		mods = plain
	}
	if havocAll || havocHeap || len(pats) > 0 {
		// contracts applied in the body that may write "everything", "the heap" or the memories
		// matching a pattern: every such memory known so far (touched or merely declared)
		known := map[string]bool{}
		for name := range st.mems {
			known[name] = true
		}
		for name := range memShapes {
			known[name] = true
		}
		have := map[string]bool{}
		for _, m := range mods {
			have[m] = true
		}
		for name := range known {
			if have[name] {
				continue
			}
			hit := false
			switch {
			case havocAll:
				hit = !strings.HasPrefix(name, "global:")
			case havocHeap && !strings.HasPrefix(name, "global:") && name != byteMemName:
				hit = true
			}
			for _, p := range pats {
				if strings.Contains(name, p) {
					hit = true
				}
			}
			if hit {
				mods = append(mods, name)
			}
		}
		sort.Strings(mods)
	}
	entryMems := map[string]*Mem{}
	for k, v := range st.mems {
		entryMems[k] = v
	}
	fullHavoc := func(name string) {
		if writeLog != nil {
			writeLog(name, nil)
		}
		if m, ok := entryMems[name]; ok {
			st.mems[name] = NewBaseMem(name, m.ksort, m.sort, FreshName(fmt.Sprintf("L%d.%s", loopID, name)))
		} else {
			ks, so := e.memShape(name)
			if so >= 0 {
				st.mems[name] = NewBaseMem(name, ks, so, FreshName(fmt.Sprintf("L%d.%s", loopID, name)))
			}
		}
	}
	for _, name := range mods {
		fullHavoc(name)
	}
	// A declared frame (verif_frame_<Func>_<k>) fixes what the loop may write in
	// byte memory: the given slice's range plus memory it allocates itself. Every
	// write of the body is checked against it at the back edges and loop exits.
	declared := map[string]bool{}
	if ff := e.frames[key]; ff != nil {
		e.loopEval = &loopEvalCtx{head: h, entry: true}
		fv := e.evalLoopFnQuiet(fr, cur.clone(), ff, li)
		e.loopEval = nil
		if em, ok := entryMems[byteMemName]; ok || true {
			if !ok {
				em = e.mem(st, byteMemName, elemKS, 8)
			}
			h.frameRegion, h.frameLo, h.frameHi = fv.T[0], fv.T[1], BVAdd(fv.T[1], fv.T[2])
			h.frameSeq = e.allocSeq
			nm := em.HavocRange(h.frameRegion, h.frameLo, h.frameHi).HavocFresh(h.frameSeq)
			st.mems[byteMemName] = nm
			h.headMem = nm
			declared[byteMemName] = true
		}
	}
	// Frame discovery: run the body once from the fully havoc'd head and look at
	// the regions actually written. Two-key (region, index) memories whose writes
	// only target regions allocated inside the loop, or regions named by
	// loop-invariant terms, keep everything else.
	if len(mods) > 0 && !e.noFrameDiscovery {
		seq0 := e.allocSeq
		logged := map[string][]*Term{}
		savedLog := writeLog
		writeLog = func(name string, region *Term) {
			logged[name] = append(logged[name], region)
			if savedLog != nil {
				savedLog(name, region)
			}
		}
		probe := st.clone()
		e.loopEval = &loopEvalCtx{head: h}
		ivq, okq := e.tryEvalLoopFnQuiet(fr, probe, inv, li)
		e.loopEval = nil
		if okq {
			probe.assume(ivq.term())
			func() {
				q := fr.quiet
				fr.quiet = true
				savedHeads := fr.heads
				fr.heads = map[*loopInfo]*loopHead{}
				for k, v := range savedHeads {
					fr.heads[k] = v
				}
				savedRegs := map[ssa.Value]Value{}
				for k, v := range fr.regs {
					savedRegs[k] = v
				}
				defer func() {
					fr.quiet = q
					fr.heads = savedHeads
					fr.regs = savedRegs
					if r := recover(); r != nil {
						if _, isU := r.(unsupported); !isU {
							panic(r)
						}
						logged = nil
					}
				}()
				var tmp []retPoint
				e.execRegion(fr, li, probe, &tmp)
			}()
		} else {
			logged = nil
		}
		writeLog = savedLog
		if logged != nil {
			prefix := fmt.Sprintf("L%d.", loopID)
			vprefix := fmt.Sprintf("loop%d.", loopID)
			for _, name := range mods {
				m, ok := entryMems[name]
				isMap := strings.HasPrefix(name, "map:") // keyed (map ref, key leaves...): the ref plays the region's part
				if !ok {
					// not touched before the loop: its entry value is the initial memory
					if ks, so := e.memShape(name); so >= 0 {
						m, ok = NewBaseMem(name, ks, so, "M0."+name), true
					}
				}
				if !ok || (len(m.ksort) != 2 && len(m.ksort) != 1 && !isMap) || declared[name] {
					continue
				}
				var regions []*Term
				fresh := false
				freshAll := false
				okFrame := true
				if len(logged["*"]) > 0 {
					continue
				}
				for _, r := range logged[name] {
					if r == nil {
						okFrame = false
						break
					}
					if r.IsConst() && r.sort == RegionSort && r.val.Uint64()>>60 == 0xF && r.val.Uint64()&0x0FFFFFFFFFFFFFFF > seq0 {
						fresh = true
						continue
					}
					if r.IsConst() && r.sort == RefSort && r.val.Uint64() > 0x80000000+seq0 {
						// object allocated inside the loop: named individually below
					}
					if dependsOnLoop(r, prefix, vprefix) {
						// a loop-carried slice known to stay in freshly allocated memory: every
						// fresh-class region may be written, pre-existing memory is not
						if callAllocOrNil(r) {
							freshAll = true
							continue
						}
						okFrame = false
						break
					}
					dup := false
					for _, x := range regions {
						if x == r {
							dup = true
						}
					}
					if !dup {
						regions = append(regions, r)
					}
				}
				if !okFrame {
					continue
				}
				nm := m
				if freshAll {
					nm = nm.HavocFresh(callAllocBase)
				} else if fresh {
					nm = nm.HavocFresh(seq0)
				}
				nm = nm.HavocRegions(regions)
				st.mems[name] = nm
			}
		}
	}
	for g := range st.ghost {
		if e.loopTouchesGhost(li, g) {
			st.ghost[g] = FreshVar("loop.ghost."+g, st.ghost[g].sort)
		}
	}
	// 3. assume the invariant
	e.loopEval = &loopEvalCtx{head: h}
	iv2 := e.evalLoopFnQuiet(fr, st, inv, li)
	e.loopEval = nil
	st.assume(iv2.term())
	if dec := e.decs[key]; dec != nil {
		d := e.evalLoopFnQuiet(fr, st, dec, li)
		h.dec = d.term()
	} else if !isRangeLoop(li) {
		e.warn("loop %d of %s has no decreases measure: partial correctness only", li.ord, fnName(fr.fn))
	}
	return st
}

func (e *Engine) evalLoopFnQuiet(fr *Frame, st *State, f *ssa.Function, li *loopInfo) Value {
	q := fr.quiet
	fr.quiet = true
	defer func() { fr.quiet = q }()
	return e.evalLoopFn(fr, st, f, li)
}

func (e *Engine) obligeNamed(fr *Frame, st *State, kind string, li *loopInfo, goal *Term, desc string) {
	ss := fr.spec
	fr.spec = false
	var site ssa.Instruction
	if len(li.head.Instrs) > 0 {
		site = li.head.Instrs[0]
	}
	e.oblige(fr, st, fmt.Sprintf("%s.loop%d", kind, li.ord), site, goal, desc)
	fr.spec = ss
}

func (e *Engine) backEdge(fr *Frame, li *loopInfo, s *State, from *ssa.BasicBlock) {
	key := e.loopKey(fr, li)
	inv := e.invs[key]
	h := fr.heads[li]
	if inv == nil && isRangeLoop(li) {
		inv = e.trueInv
	}
	if inv == nil || h == nil {
		unsup("back edge of loop %d without invariant", li.ord)
	}
	e.loopFrameCheck(fr, li, s)
	for _, cc := range h.classCells {
		cv, ok := s.cells[cc.key]
		if !ok || cc.leaf >= len(cv) {
			continue
		}
		r := cv[cc.leaf]
		if callAllocOrNil(r) {
			continue // syntactically nil or allocated during the call
		}
		goal := Or(Eq(r, BVConst(0, RegionSort)), BVUlt(BVConstU(0xF000000000000000+callAllocBase, RegionSort), r))
		e.obligeNamed(fr, s, "class-preserved", li, goal, fmt.Sprintf("loop %d keeps %s in memory allocated during the call", li.ord, cc.name))
	}
	e.loopEval = &loopEvalCtx{head: h}
	iv := e.evalLoopFn(fr, s, inv, li)
	e.loopEval = nil
	e.obligeNamed(fr, s, "inv-preserved", li, iv.term(), fmt.Sprintf("loop %d invariant preserved", li.ord))
	if dec := e.decs[key]; dec != nil && h.dec != nil {
		d := e.evalLoopFnQuiet(fr, s, dec, li).term()
		zero := BVConst(0, d.sort)
		e.obligeNamed(fr, s, "decreases", li, And(BVSle(zero, h.dec), BVSlt(d, h.dec)), fmt.Sprintf("loop %d measure decreases and is bounded below", li.ord))
	}
}

// ---------- which memories may a loop body write ----------

func (e *Engine) loopModifiedMems(fr *Frame, li *loopInfo) []string {
	set := map[string]bool{}
	for b := range li.blocks {
		for _, in := range b.Instrs {
			e.instrMods(in, set, map[*ssa.Function]bool{fr.fn: true}, 0)
		}
	}
	var out []string
	for k := range set {
		out = append(out, k)
	}
	return out
}

func (e *Engine) loopTouchesGhost(li *loopInfo, g string) bool {
	if strings.HasPrefix(g, "wire.") {
		for b := range li.blocks {
			for _, in := range b.Instrs {
				if ci, ok := in.(ssa.CallInstruction); ok && e.callMaySend(ci.Common(), map[*ssa.Function]bool{}, 0) {
					return true
				}
			}
		}
		return false
	}
	if strings.HasPrefix(g, "iter.") {
		return true
	}
	for b := range li.blocks {
		for _, in := range b.Instrs {
			switch in.(type) {
			case *ssa.Call, *ssa.MakeSlice, *ssa.MakeMap, *ssa.MakeClosure, *ssa.Alloc, *ssa.MakeInterface, *ssa.Convert, *ssa.BinOp, *ssa.Go, *ssa.Send:
				return true
			}
		}
	}
	return false
}

// callMaySend: the call may hand a frame to the connection (WriteTo), directly,
// through a contract that declares vModifiesWire, or through inlined repository code.
func (e *Engine) callMaySend(c *ssa.CallCommon, seen map[*ssa.Function]bool, depth int) bool {
	if c.IsInvoke() {
		return c.Method.Name() == "WriteTo"
	}
	callee := c.StaticCallee()
	if callee == nil {
		_, isBuiltin := c.Value.(*ssa.Builtin)
		return !isBuiltin // unknown function value: conservative
	}
	if intrinsicNames[intrinsicName(callee)] || strings.HasPrefix(callee.Name(), "spec_") {
		return false
	}
	if hn, ok := e.contracts[callee]; ok {
		for _, b := range hn.Blocks {
			for _, in := range b.Instrs {
				if cc, ok := in.(*ssa.Call); ok {
					if f := cc.Call.StaticCallee(); f != nil && f.Name() == "vModifiesWire" {
						return true
					}
				}
			}
		}
		return false
	}
	if callee.Blocks == nil || seen[callee] || depth > 8 {
		return false
	}
	if callee.Pkg == nil || !strings.HasPrefix(callee.Pkg.Pkg.Path(), "github.com/irai/packet") {
		return false // abstracted: no effect on modelled state
	}
	seen[callee] = true
	for _, b := range callee.Blocks {
		for _, in := range b.Instrs {
			if ci, ok := in.(ssa.CallInstruction); ok && e.callMaySend(ci.Common(), seen, depth+1) {
				return true
			}
		}
	}
	return false
}

var memShapes = map[string]struct {
	ks []Sort
	s  Sort
}{}

func (e *Engine) memShape(name string) ([]Sort, Sort) {
	if s, ok := memShapes[name]; ok {
		return s.ks, s.s
	}
	return nil, -1
}

func noteMem(name string, ks []Sort, s Sort) {
	memShapes[name] = struct {
		ks []Sort
		s  Sort
	}{ks, s}
}

func (e *Engine) addrMods(v ssa.Value, t types.Type, set map[string]bool) {
	// v is the address stored through; t the stored type
	switch x := v.(type) {
	case *ssa.Alloc:
		if x.Heap {
			root := x.Type().(*types.Pointer).Elem()
			if arr, ok := root.Underlying().(*types.Array); ok {
				e.elemMods(arr.Elem(), set)
			} else {
				e.objMods(root, set)
			}
		} else if arr, ok := x.Type().(*types.Pointer).Elem().Underlying().(*types.Array); ok {
			e.elemMods(arr.Elem(), set)
		}
	case *ssa.FieldAddr:
		pt := x.X.Type().Underlying().(*types.Pointer).Elem()
		if a := rootAlloc(x); a != nil && !a.Heap {
			return
		}
		if _, isGlobal := rootGlobal(x); isGlobal {
			return
		}
		// conservatively every leaf of the enclosing named struct type
		e.objMods(pt, set)
		// the struct may itself be embedded: walk up
		e.addrMods(x.X, pt, set)
	case *ssa.IndexAddr:
		switch u := x.X.Type().Underlying().(type) {
		case *types.Slice:
			e.elemMods(u.Elem(), set)
		case *types.Pointer:
			if arr, ok := u.Elem().Underlying().(*types.Array); ok {
				e.elemMods(arr.Elem(), set)
			}
		}
	case *ssa.Global:
	default:
		// pointer value from elsewhere (parameter, load, call result)
		if pt, ok := v.Type().Underlying().(*types.Pointer); ok {
			if arr, ok := pt.Elem().Underlying().(*types.Array); ok {
				e.elemMods(arr.Elem(), set)
			} else {
				e.objMods(pt.Elem(), set)
			}
		}
	}
}

func rootGlobal(v ssa.Value) (*ssa.Global, bool) {
	for {
		switch x := v.(type) {
		case *ssa.Global:
			return x, true
		case *ssa.FieldAddr:
			v = x.X
		case *ssa.IndexAddr:
			v = x.X
		default:
			return nil, false
		}
	}
}

func (e *Engine) elemMods(elem types.Type, set map[string]bool) {
	for _, l := range leavesOf(elem) {
		n := elemMemName(elem, l)
		noteMem(n, elemKS, l.sort)
		set[n] = true
	}
}

func (e *Engine) objMods(root types.Type, set map[string]bool) {
	defer func() {
		if r := recover(); r != nil {
			if _, ok := r.(unsupported); !ok {
				panic(r)
			}
		}
	}()
	if _, ok := root.Underlying().(*types.Struct); !ok {
		for _, l := range leavesOf(root) {
			n := objMemName(root, l)
			noteMem(n, objKS, l.sort)
			set[n] = true
		}
		return
	}
	e.structMods(root, root, set)
}

func (e *Engine) structMods(root, t types.Type, set map[string]bool) {
	st := t.Underlying().(*types.Struct)
	for i := 0; i < st.NumFields(); i++ {
		ft := st.Field(i).Type()
		if arr, ok := ft.Underlying().(*types.Array); ok {
			e.elemMods(arr.Elem(), set)
		}
	}
	for _, l := range leavesOf(root) {
		n := objMemName(root, l)
		noteMem(n, objKS, l.sort)
		set[n] = true
	}
}

func (e *Engine) instrMods(in ssa.Instruction, set map[string]bool, seen map[*ssa.Function]bool, depth int) {
	switch x := in.(type) {
	case *ssa.Store:
		if a := rootAlloc(x.Addr); a != nil && !a.Heap {
			if _, isArr := a.Type().(*types.Pointer).Elem().Underlying().(*types.Array); !isArr {
				return
			}
		}
		e.addrMods(x.Addr, x.Val.Type(), set)
	case *ssa.MapUpdate:
		e.mapMods(x.Map.Type(), set)
	case *ssa.Call:
		e.callMods(&x.Call, set, seen, depth)
	case *ssa.Defer:
		e.callMods(&x.Call, set, seen, depth)
	}
}

func (e *Engine) callMods(c *ssa.CallCommon, set map[string]bool, seen map[*ssa.Function]bool, depth int) {
	if b, ok := c.Value.(*ssa.Builtin); ok {
		switch b.Name() {
		case "copy", "append":
			if sl, ok := c.Args[0].Type().Underlying().(*types.Slice); ok {
				e.elemMods(sl.Elem(), set)
			}
		case "delete":
			e.mapMods(c.Args[0].Type(), set)
		}
		return
	}
	callee := c.StaticCallee()
	if callee == nil {
		if c.IsInvoke() {
			set["*"] = set["*"] || e.invokeWrites(c)
		}
		return
	}
	if intrinsicNames[intrinsicName(callee)] || strings.HasPrefix(callee.Name(), "spec_") {
		return
	}
	if hn, ok := e.contracts[callee]; ok {
		// modifies clauses of the contract
		for _, b := range hn.Blocks {
			for _, in := range b.Instrs {
				if cc, ok := in.(*ssa.Call); ok {
					if f := cc.Call.StaticCallee(); f != nil {
						switch intrinsicName(f) {
						case "vModifiesBytes":
							e.elemMods(f.Params[0].Type().Underlying().(*types.Slice).Elem(), set)
						case "vModifiesElems":
							if sl, ok := cc.Call.Args[0].Type().Underlying().(*types.Slice); ok {
								e.elemMods(sl.Elem(), set)
							}
						case "vModifiesAll":
							set["*"] = true
						case "vModifiesHeap":
							set["*heap"] = true
						case "vModifiesMap":
							e.mapMods(cc.Call.Args[0].Type(), set)
						case "vModifiesObj", "vModifiesField":
							// every field of the pointed-to object's type (an over-approximation for
							// vModifiesField and interior pointers)
							if mi, ok := cc.Call.Args[0].(*ssa.MakeInterface); ok {
								if pt, ok := mi.X.Type().Underlying().(*types.Pointer); ok {
									root := pt.Elem()
									if fa, ok := mi.X.(*ssa.FieldAddr); ok {
										// &x.f: the memory is named after the enclosing object
										if a := rootObjType(fa); a != nil {
											root = a
										}
									}
									e.objMods(root, set)
								} else {
									set["*heap"] = true
								}
							} else {
								set["*heap"] = true
							}
						case "vModifiesMems":
							// literal patterns: every string constant stored in the harness
							for _, b2 := range hn.Blocks {
								for _, in2 := range b2.Instrs {
									if st2, ok := in2.(*ssa.Store); ok {
										if c2, ok := st2.Val.(*ssa.Const); ok && c2.Value != nil && c2.Value.Kind() == constant.String {
											set["~"+constant.StringVal(c2.Value)] = true
										}
									}
								}
							}
						}
					}
				}
			}
		}
		return
	}
	if ms, ok := e.externMods(callee, c); ok {
		for _, m := range ms {
			set[m] = true
		}
		return
	}
	if callee.Blocks == nil || seen[callee] || depth > 10 {
		return
	}
	if e.abstractPolicy(&Frame{fn: callee}, callee) != "" {
		return
	}
	seen[callee] = true
	for _, b := range callee.Blocks {
		for _, in := range b.Instrs {
			e.instrMods(in, set, seen, depth+1)
		}
	}
}

// rootObjType: the type of the outermost object a chain of field addresses starts from.
func rootObjType(fa *ssa.FieldAddr) types.Type {
	var v ssa.Value = fa
	for {
		switch x := v.(type) {
		case *ssa.FieldAddr:
			v = x.X
		default:
			if pt, ok := v.Type().Underlying().(*types.Pointer); ok {
				return pt.Elem()
			}
			return nil
		}
	}
}

func (e *Engine) invokeWrites(c *ssa.CallCommon) bool { return false }

func dependsOnLoop(t *Term, ufPrefix, varPrefix string) bool {
	found := false
	Walk(t, map[int]bool{}, func(x *Term) {
		if (x.op == "uf" || x.op == "var") && (strings.HasPrefix(x.name, sanitize(ufPrefix)) || strings.HasPrefix(x.name, sanitize(varPrefix))) {
			found = true
		}
	})
	return found
}

func (e *Engine) tryEvalLoopFnQuiet(fr *Frame, st *State, f *ssa.Function, li *loopInfo) (v Value, ok bool) {
	defer func() {
		if r := recover(); r != nil {
			if _, isU := r.(unsupported); isU {
				ok = false
				return
			}
			panic(r)
		}
	}()
	return e.evalLoopFnQuiet(fr, st, f, li), true
}

// isRangeLoop: loops over a map or string iterator terminate by Go semantics
// (finite collection, each element visited at most once).
func isRangeLoop(li *loopInfo) bool {
	for _, in := range li.head.Instrs {
		if _, ok := in.(*ssa.Next); ok {
			return true
		}
	}
	return false
}

// loopFrameCheck: every write to byte memory since the loop head lies inside the
// declared frame of the loop or in memory allocated since the loop was entered.
func (e *Engine) loopFrameCheck(fr *Frame, li *loopInfo, s *State) {
	h := fr.heads[li]
	if h == nil || h.headMem == nil {
		return
	}
	fin := s.mems[byteMemName]
	if fin == nil || fin == h.headMem {
		return
	}
	hc := &harnessCtx{modifies: []modClause{{kind: "bytes", elem: types.Typ[types.Uint8], region: h.frameRegion, lo: h.frameLo, hi: h.frameHi}}}
	var site ssa.Instruction
	if len(li.head.Instrs) > 0 {
		site = li.head.Instrs[0]
	}
	if !e.frameByWrites(fr, s, byteMemName, fin, h.headMem, h.frameSeq, hc, site) {
		ss := fr.spec
		fr.spec = false
		tmp := s.clone()
		e.oblige(fr, tmp, fmt.Sprintf("loop-frame.loop%d", li.ord), site, False, "writes of the loop body cannot be related to its declared frame")
		fr.spec = ss
	}
}

// pathInfeasible asks the solver (2 s) whether the path condition is contradictory.
func (e *Engine) pathInfeasible(st *State) bool {
	if st.dead {
		return true
	}
	hyp := st.pc.term()
	if len(e.quantVars) > 0 && e.mentionsQuant(hyp) {
		// quantified facts need instances chosen for a goal: use the plain query builder
	}
	o := &Obligation{Name: "path-feasible", Kind: "internal", hyp: hyp, goal: False}
	v := solveReqDo("", solveReq{Query: e.buildQuery(o, nil), TimeoutMs: 2000})
	return v.Status == "unsat"
}
