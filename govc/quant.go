package main

import (
	"fmt"
	"go/types"
	"os"

	"golang.org/x/tools/go/ssa"
)

// Quantified facts are represented by a Boolean placeholder p together with
// the body B(q) over a bound-variable symbol q. Each query adds the two sound
// consequences of p == forall q. B(q):
//     p  => B(t)   for every candidate term t   (instantiation)
//     !p => !B(sk) for one fresh Skolem constant (witness)
// so no quantifier ever reaches the solver.

type quantInfo struct {
	forall bool
	p      *Term
	q      *Term
	body   *Term // includes the range guard
	sk     *Term
	qs     []*Term // all bound variables (qs[0] == q)
	sks    []*Term // Skolem witnesses, one per bound variable
	bodyW  *Term   // body used for the witness (proving the quantifier): facts established while evaluating
	//                the body (well-formedness of the values read) are hypotheses there, conclusions in body
	ctx    []*Term // bound variables of the enclosing quantifiers this one depends on (nested quantifier):
	//                the placeholder is then the application name(ctx...) and the witnesses are functions of ctx
	triggers []*Term
}

func (qi *quantInfo) substMap(ts []*Term) map[string]*Term {
	m := map[string]*Term{}
	for i, q := range qi.qs {
		m[q.name] = ts[i]
	}
	return m
}

// newPlaceholder creates the Boolean placeholder and the witnesses of a quantifier created while
// the bodies of the quantifiers in e.qctx are being evaluated: they depend on those bound variables.
func (e *Engine) newPlaceholder(skSorts []Sort, skPrefix string) (p *Term, sks []*Term, ctx []*Term) {
	ctx = append([]*Term(nil), e.qctx...)
	if len(ctx) == 0 {
		p = FreshVar("Q", BoolSort)
		for _, so := range skSorts {
			sks = append(sks, FreshVar(skPrefix, so))
		}
		return
	}
	p = UF(FreshName("Q"), BoolSort, ctx...)
	for _, so := range skSorts {
		sks = append(sks, UF(FreshName(skPrefix), so, ctx...))
	}
	return
}

func placeholderName(p *Term) string { return p.name }

func tupleKey(ts []*Term) string {
	k := ""
	for _, t := range ts {
		k += fmt.Sprintf("%d,", t.id)
	}
	return k
}

// mapQuantifier: vMapAll(m, f) == forall keys k. k in dom(m) => f(k, m[k]).
// The bound variables are the key leaves (for string keys: the key identity).
func (e *Engine) mapQuantifier(fr *Frame, st *State, args []Value, site ssa.Instruction, mtype types.Type) *Term {
	cl := args[1].C
	if cl == nil {
		unsup("vMapAll needs a function literal")
	}
	mt := mtype.Underlying().(*types.Map)
	ref := args[0].term()
	var qs, sks []*Term
	var k Value
	tmp := st.clone()
	if isStringType(mt.Key()) {
		q := FreshVar("qk", 64)
		qs = []*Term{q}
		k = Value{T: []*Term{UF("strkey.r", RegionSort, q), UF("strkey.o", IntSort, q), UF("strkey.l", IntSort, q)}}
		tmp.assume(wfAssumptions(k.T, mt.Key(), false))
	} else {
		kts := freshTerms("qk", mt.Key())
		qs = kts
		k = e.unflat(kts, mt.Key())
	}
	present, val := e.mapRead(tmp, mtype, ref, k)
	tmp.assume(present)
	nf := e.newFrame(cl.fn, fr)
	nf.freevars = cl.bindings
	nf.spec = true
	nf.quiet = true
	nf.prefix = fr.prefix
	e.qctx = append(e.qctx, qs...)
	vals := e.finishCall(fr, tmp, nf, []Value{k, e.unflat(val, mt.Elem())}, site)
	e.qctx = e.qctx[:len(e.qctx)-len(qs)]
	b := vals[0].term()
	facts := pcDelta(tmp.pc, pcLCA(tmp.pc, st.pc))
	guard := present
	if !isStringType(mt.Key()) {
		guard = And(present, wfAssumptions(qs, mt.Key(), false))
	}
	body := Implies(guard, And(facts, b))
	bodyW := Implies(guard, Implies(facts, b))
	// the same predicate over the same map in the same (relevant) memory state is the same
	// fact: bodies equal up to the names of the bound variables share one placeholder, so two
	// evaluations of spec_xxx_ok(h) agree syntactically
	canon := map[string]*Term{}
	for i, q := range qs {
		canon[q.name] = Var(fmt.Sprintf("qcanon.%d.%d", i, q.sort), q.sort)
	}
	cacheKey := fmt.Sprintf("%d", Subst(body, canon).id)
	if e.mapQuantCache == nil {
		e.mapQuantCache = map[string]*Term{}
	}
	if p, ok := e.mapQuantCache[cacheKey]; ok && len(e.qctx) == 0 {
		if os.Getenv("GOVC_DEBUG_Q") != "" {
			fmt.Fprintf(os.Stderr, "mapquant reuse %s\n", p.name)
		}
		return p
	}
	var skSorts []Sort
	for _, q := range qs {
		skSorts = append(skSorts, q.sort)
	}
	p, sks, ctx := e.newPlaceholder(skSorts, "skk")
	if os.Getenv("GOVC_DEBUG_Q") != "" {
		fmt.Fprintf(os.Stderr, "mapquant new %s key %s\n  b=%s\n  facts=%s\n", p.name, cacheKey, clip(b.String(), 1500), clip(facts.String(), 600))
	}
	qi := &quantInfo{forall: true, p: p, q: qs[0], body: body, bodyW: bodyW, sk: sks[0], qs: qs, sks: sks, ctx: ctx}
	e.quantVars[p.name] = qi
	if len(ctx) == 0 {
		e.mapQuantCache[cacheKey] = p
	}
	return p
}

func (e *Engine) quantifier(fr *Frame, st *State, forall bool, args []Value, site ssa.Instruction) *Term {
	lo, hi := args[0].term(), args[1].term()
	cl := args[2].C
	if cl == nil {
		unsup("vForall needs a function literal")
	}
	q := FreshVar("q", IntSort)
	nf := e.newFrame(cl.fn, fr)
	nf.freevars = cl.bindings
	nf.spec = true
	nf.quiet = true
	nf.prefix = fr.prefix
	tmp := st.clone()
	inRange := And(BVSle(lo, q), BVSlt(q, hi))
	tmp.assume(inRange)
	e.qctx = append(e.qctx, q)
	vals := e.finishCall(fr, tmp, nf, []Value{scalar(q)}, site)
	e.qctx = e.qctx[:len(e.qctx)-1]
	b := vals[0].term()
	var body, bodyW *Term
	if forall {
		// facts assumed while evaluating the body (memory well-formedness of what it reads,
		// path coverage of its branches) hold for every index: they come with each instance,
		// and may be used when the quantifier is being proved
		facts := pcDelta(tmp.pc, pcLCA(tmp.pc, st.pc))
		body = Implies(inRange, And(facts, b))
		bodyW = Implies(inRange, Implies(facts, b))
	} else {
		body = And(inRange, b)
	}
	p, sks, ctx := e.newPlaceholder([]Sort{IntSort}, "sk")
	qi := &quantInfo{forall: forall, p: p, q: q, body: body, bodyW: bodyW, sk: sks[0], ctx: ctx}
	qi.qs, qi.sks = []*Term{qi.q}, []*Term{qi.sk}
	e.quantVars[p.name] = qi
	_ = fmt.Sprint
	return p
}

// expandQuantifiers returns the axioms for all quantifier placeholders reachable
// from the given formulas. Instances are chosen by matching: a quantified body
// that reads memory M at (r, c+q) is instantiated for every ground read of M
// at (r', j) with r' possibly equal to r, taking q := j - c.
func (e *Engine) expandQuantifiers(fs []*Term, goalFs []*Term) []*Term {
	var axioms []*Term
	done := map[int]map[string]bool{} // placeholder instance -> instantiated tuples
	skdone := map[int]bool{}
	all := append([]*Term(nil), fs...)
	polFs := append([]*Term(nil), fs...) // formulas that determine polarities (axiom heads excluded)
	boundNames := map[string]bool{}
	for _, qi := range e.quantVars {
		for _, q := range qi.qs {
			boundNames[q.name] = true
		}
	}
	// ground terms used for matching come from the goal side (and from the
	// axioms generated here), not from the whole path condition: instances are
	// needed for what is being proved, not for everything read so far
	matchFs := append([]*Term(nil), goalFs...)
	type qinst struct {
		qi   *quantInfo // with body / witnesses specialised to this instance
		p    *Term      // the placeholder term (a Boolean variable, or name(args) for a nested quantifier)
	}
	specialised := map[int]*quantInfo{}
	for round := 0; round < 4; round++ {
		seen := map[int]bool{}
		var qs []qinst
		var ground []*Term
		for _, f := range all {
			Walk(f, seen, func(t *Term) {
				switch t.op {
				case "var":
					if qi, ok := e.quantVars[t.name]; ok && len(qi.ctx) == 0 {
						qs = append(qs, qinst{qi, t})
					}
				case "uf":
					qi, ok := e.quantVars[t.name]
					if !ok || len(qi.ctx) != len(t.args) || mentionsAny(t, boundNames) {
						return
					}
					sq := specialised[t.id]
					if sq == nil {
						sub := map[string]*Term{}
						for i, c := range qi.ctx {
							sub[c.name] = t.args[i]
						}
						sq = &quantInfo{forall: qi.forall, p: t, q: qi.q, qs: qi.qs, body: Subst(qi.body, sub)}
						if qi.bodyW != nil {
							sq.bodyW = Subst(qi.bodyW, sub)
						}
						for _, sk := range qi.sks {
							sq.sks = append(sq.sks, Subst(sk, sub))
						}
						sq.sk = sq.sks[0]
						specialised[t.id] = sq
					}
					qs = append(qs, qinst{sq, t})
				}
			})
		}
		seenG := map[int]bool{}
		for _, f := range matchFs {
			Walk(f, seenG, func(t *Term) {
				if t.op == "uf" {
					ground = append(ground, t)
				}
			})
		}
		if len(qs) == 0 {
			break
		}
		// keep only ground applications (no bound variable inside)
		var g2 []*Term
		for _, g := range ground {
			if !mentionsAny(g, boundNames) {
				g2 = append(g2, g)
			}
		}
		ground = g2
		pol := polarities(polFs, e.quantVars)
		var newAx []*Term
		var groundAll []*Term
		for _, in := range qs {
			qi := in.qi
			pp := pol[in.p.id]
			needWitness := pp&polNeg != 0
			needInst := pp&polPos != 0
			if !qi.forall {
				needWitness, needInst = needInst, needWitness
			}
			if needWitness && !skdone[in.p.id] {
				skdone[in.p.id] = true
				wb := qi.body
				if qi.bodyW != nil {
					wb = qi.bodyW
				}
				inst := Subst(wb, qi.substMap(qi.sks))
				if qi.forall {
					newAx = append(newAx, Or(in.p, Not(inst)))
					polFs = append(polFs, Not(inst))
				} else {
					newAx = append(newAx, Or(Not(in.p), inst))
					polFs = append(polFs, inst)
				}
			}
			if !needInst {
				continue
			}
			d := done[in.p.id]
			if d == nil {
				d = map[string]bool{}
				done[in.p.id] = d
			}
			n := 0
			var cands [][]*Term
			if len(qi.qs) == 1 && qi.q.sort == IntSort && qi.q.name[:2] != "qk" {
				for _, t := range e.matchInstances(qi, ground) {
					cands = append(cands, []*Term{t})
				}
			} else {
				// map quantifiers: lookups are few, so keys read anywhere on the path are candidates
				if groundAll == nil {
					seenA := map[int]bool{}
					for _, f := range all {
						Walk(f, seenA, func(t *Term) {
							if t.op == "uf" && !mentionsAny(t, boundNames) {
								groundAll = append(groundAll, t)
							}
						})
					}
				}
				// keys read on the goal side first: they are the ones the proof is about, and the
				// number of instances per quantifier is capped
				cands = append(e.matchTuples(qi, ground), e.matchTuples(qi, groundAll)...)
			}
			for _, ts := range cands {
				tk := tupleKey(ts)
				if d[tk] || n > 64 {
					continue
				}
				d[tk] = true
				n++
				inst := Subst(qi.body, qi.substMap(ts))
				if qi.forall {
					newAx = append(newAx, Or(Not(in.p), inst))
					polFs = append(polFs, inst)
				} else {
					newAx = append(newAx, Or(in.p, Not(inst)))
					polFs = append(polFs, Not(inst))
				}
			}
		}
		if len(newAx) == 0 {
			break
		}
		axioms = append(axioms, newAx...)
		all = append(all, newAx...)
		matchFs = append(matchFs, newAx...)
	}
	return axioms
}

// triggers of a quantifier: uninterpreted applications in its body that mention the bound variable.
func (qi *quantInfo) getTriggers() []*Term {
	if qi.triggers != nil {
		return qi.triggers
	}
	qi.triggers = []*Term{}
	Walk(qi.body, map[int]bool{}, func(t *Term) {
		if t.op == "uf" && mentions(t, qi.q.name) {
			qi.triggers = append(qi.triggers, t)
		}
	})
	return qi.triggers
}

// matchInstances solves pattern(q) = ground for q, for linear index patterns.
func (e *Engine) matchInstances(qi *quantInfo, ground []*Term) []*Term {
	var out, loose []*Term
	seen := map[int]bool{}
	add := func(t *Term, exact bool) {
		if !seen[t.id] && !mentions(t, qi.q.name) {
			seen[t.id] = true
			if exact {
				out = append(out, t)
			} else {
				loose = append(loose, t)
			}
		}
	}
	for _, p := range qi.getTriggers() {
		// position of the argument holding q, which must be q or a sum containing q once
		pos := -1
		okPat := true
		for i, a := range p.args {
			if !mentions(a, qi.q.name) {
				continue
			}
			if pos >= 0 {
				okPat = false
				break
			}
			pos = i
		}
		if !okPat || pos < 0 {
			continue
		}
		pa := p.args[pos]
		var rest []*Term // addends other than q
		switch {
		case pa == qi.q:
		case pa.op == "bvadd":
			cnt := 0
			for _, x := range pa.args {
				if x == qi.q {
					cnt++
				} else if mentions(x, qi.q.name) {
					cnt = 99
				} else {
					rest = append(rest, x)
				}
			}
			if cnt != 1 {
				continue
			}
		default:
			continue
		}
		for _, g := range ground {
			if g.name != p.name || len(g.args) != len(p.args) {
				continue
			}
			match, exact := true, true
			for i := range g.args {
				if i == pos {
					continue
				}
				if g.args[i] != p.args[i] {
					exact = false
				}
				if EqOff(g.args[i], p.args[i]) == False {
					match = false
					break
				}
			}
			if !match {
				continue
			}
			terms := []*Term{g.args[pos]}
			for _, x := range rest {
				terms = append(terms, BVNeg(x))
			}
			add(bvSum(pa.sort, terms...), exact)
		}
	}
	// reads of the very same region first; reads of regions that merely might
	// alias are used only when there is no exact match, and sparingly
	if len(out) == 0 && len(loose) > 0 {
		if len(loose) > 8 {
			loose = loose[:8]
		}
		return loose
	}
	return out
}

// matchTuples: triggers are uninterpreted applications in which every bound variable occurs
// as a direct argument; each ground application of the same function whose other arguments
// may be equal yields one instance.
func (e *Engine) matchTuples(qi *quantInfo, ground []*Term) [][]*Term {
	var out [][]*Term
	seen := map[string]bool{}
	qpos := map[string]int{}
	for i, q := range qi.qs {
		qpos[q.name] = i
	}
	names := map[string]bool{}
	for _, q := range qi.qs {
		names[q.name] = true
	}
	var trig []*Term
	Walk(qi.body, map[int]bool{}, func(t *Term) {
		if t.op == "uf" && mentionsAny(t, names) {
			trig = append(trig, t)
		}
	})
	for _, p := range trig {
		pos := make([]int, len(qi.qs))
		for i := range pos {
			pos[i] = -1
		}
		ok := true
		for i, a := range p.args {
			if a.op == "var" && names[a.name] {
				pos[qpos[a.name]] = i
			} else if mentionsAny(a, names) {
				ok = false
			}
		}
		for _, x := range pos {
			if x < 0 {
				ok = false
			}
		}
		if !ok {
			continue
		}
		isPos := map[int]bool{}
		for _, x := range pos {
			isPos[x] = true
		}
		for _, g := range ground {
			if g.name != p.name || len(g.args) != len(p.args) {
				continue
			}
			match := true
			for i := range g.args {
				if !isPos[i] && EqOff(g.args[i], p.args[i]) == False {
					match = false
					break
				}
			}
			if !match {
				continue
			}
			ts := make([]*Term, len(qi.qs))
			for i, x := range pos {
				ts[i] = g.args[x]
			}
			if k := tupleKey(ts); !seen[k] {
				seen[k] = true
				out = append(out, ts)
			}
		}
	}
	return out
}

func mentionsAny(t *Term, names map[string]bool) bool {
	found := false
	Walk(t, map[int]bool{}, func(x *Term) {
		if x.op == "var" && names[x.name] {
			found = true
		}
	})
	return found
}

func mentions(t *Term, name string) bool {
	found := false
	Walk(t, map[int]bool{}, func(x *Term) {
		if x.op == "var" && x.name == name {
			found = true
		}
	})
	return found
}

const (
	polPos = 1
	polNeg = 2
)

// polarities computes, for every quantifier placeholder, whether it occurs
// positively and/or negatively in the conjunction of fs.
func polarities(fs []*Term, qv map[string]*quantInfo) map[int]int {
	res := map[int]int{}
	seen := map[[2]int]bool{}
	type item struct {
		t *Term
		p int
	}
	var stack []item
	for _, f := range fs {
		stack = append(stack, item{f, polPos})
	}
	flip := func(p int) int {
		r := 0
		if p&polPos != 0 {
			r |= polNeg
		}
		if p&polNeg != 0 {
			r |= polPos
		}
		return r
	}
	for len(stack) > 0 {
		it := stack[len(stack)-1]
		stack = stack[:len(stack)-1]
		k := [2]int{it.t.id, it.p}
		if seen[k] {
			continue
		}
		seen[k] = true
		t := it.t
		switch t.op {
		case "var":
			if _, ok := qv[t.name]; ok {
				res[t.id] |= it.p
			}
		case "uf":
			if _, ok := qv[t.name]; ok && t.sort == BoolSort {
				res[t.id] |= it.p // instance of a nested quantifier's placeholder
			}
			for _, a := range t.args {
				stack = append(stack, item{a, polPos | polNeg})
			}
		case "not":
			stack = append(stack, item{t.args[0], flip(it.p)})
		case "and", "or":
			for _, a := range t.args {
				stack = append(stack, item{a, it.p})
			}
		case "ite":
			stack = append(stack, item{t.args[0], polPos | polNeg})
			if t.sort == BoolSort {
				stack = append(stack, item{t.args[1], it.p}, item{t.args[2], it.p})
			} else {
				stack = append(stack, item{t.args[1], polPos | polNeg}, item{t.args[2], polPos | polNeg})
			}
		default:
			for _, a := range t.args {
				stack = append(stack, item{a, polPos | polNeg})
			}
		}
	}
	return res
}

func clip(s string, n int) string {
	if len(s) > n {
		return s[:n] + "..."
	}
	return s
}
