package main

import (
	"fmt"

	"golang.org/x/tools/go/ssa"
)

// Quantified facts are represented by a Boolean placeholder p together with
// the body B(q) over a bound-variable symbol q. Each query adds the two sound
// consequences of p == forall q. B(q):
//     p  => B(t)   for every candidate term t   (instantiation)
//     !p => !B(sk) for one fresh Skolem constant (witness)
// so no quantifier ever reaches the solver.

type quantInfo struct {
	forall bool
	p      *Term
	q      *Term
	body   *Term // includes the range guard
	sk     *Term
}

func (e *Engine) quantifier(fr *Frame, st *State, forall bool, args []Value, site ssa.Instruction) *Term {
	lo, hi := args[0].term(), args[1].term()
	cl := args[2].C
	if cl == nil {
		unsup("vForall needs a function literal")
	}
	q := FreshVar("q", IntSort)
	nf := e.newFrame(cl.fn, fr)
	nf.freevars = cl.bindings
	nf.spec = true
	nf.quiet = true
	nf.prefix = fr.prefix
	tmp := st.clone()
	inRange := And(BVSle(lo, q), BVSlt(q, hi))
	tmp.assume(inRange)
	vals := e.finishCall(fr, tmp, nf, []Value{scalar(q)}, site)
	b := vals[0].term()
	var body *Term
	if forall {
		body = Implies(inRange, b)
	} else {
		body = And(inRange, b)
	}
	p := FreshVar("Q", BoolSort)
	qi := &quantInfo{forall: forall, p: p, q: q, body: body, sk: FreshVar("sk", IntSort)}
	e.quantVars[p.name] = qi
	_ = fmt.Sprint
	return p
}

// expandQuantifiers returns the axioms for all quantifier placeholders reachable
// from the given formulas.
func (e *Engine) expandQuantifiers(fs []*Term) []*Term {
	var axioms []*Term
	done := map[string]map[int]bool{} // placeholder -> instantiated term ids
	skdone := map[string]bool{}
	all := append([]*Term(nil), fs...)
	polFs := append([]*Term(nil), fs...) // formulas that determine polarities (axiom heads excluded)
	for round := 0; round < 3; round++ {
		// collect placeholders and candidate index terms
		seen := map[int]bool{}
		var qs []*quantInfo
		cands := map[int]*Term{}
		for _, f := range all {
			Walk(f, seen, func(t *Term) {
				if t.op == "var" {
					if qi, ok := e.quantVars[t.name]; ok {
						qs = append(qs, qi)
					}
					return
				}
				if t.op == "uf" {
					// memory reads: index arguments of sort Int
					for i, a := range t.args {
						if i >= 1 && a.sort == IntSort {
							cands[a.id] = a
							// the Go-level index is the memory index minus the slice offset:
							// offer the sum without each single addend as well
							if a.op == "bvadd" {
								for k := range a.args {
									rest := make([]*Term, 0, len(a.args)-1)
									rest = append(rest, a.args[:k]...)
									rest = append(rest, a.args[k+1:]...)
									r := bvSum(a.sort, rest...)
									cands[r.id] = r
								}
							}
						}
					}
				}
			})
		}
		if len(qs) == 0 {
			break
		}
		// polarity of every placeholder in the conjunction of all formulas
		pol := polarities(polFs, e.quantVars)
		var newAx []*Term
		for _, qi := range qs {
			pp := pol[qi.p.name]
			needWitness := pp&polNeg != 0
			needInst := pp&polPos != 0
			if !qi.forall {
				needWitness, needInst = needInst, needWitness
			}
			// witness
			if needWitness && !skdone[qi.p.name] {
				skdone[qi.p.name] = true
				inst := Subst(qi.body, map[string]*Term{qi.q.name: qi.sk})
				if qi.forall {
					newAx = append(newAx, Or(qi.p, Not(inst)))
					polFs = append(polFs, Not(inst))
				} else {
					newAx = append(newAx, Or(Not(qi.p), inst))
					polFs = append(polFs, inst)
				}
			}
			d := done[qi.p.name]
			if d == nil {
				d = map[int]bool{}
				done[qi.p.name] = d
			}
			n := 0
			if !needInst {
				continue
			}
			for id, t := range cands {
				if d[id] || n > 400 {
					continue
				}
				// do not instantiate with terms mentioning the bound variable itself
				if mentions(t, qi.q.name) {
					continue
				}
				d[id] = true
				n++
				inst := Subst(qi.body, map[string]*Term{qi.q.name: t})
				if qi.forall {
					newAx = append(newAx, Or(Not(qi.p), inst))
					polFs = append(polFs, inst)
				} else {
					newAx = append(newAx, Or(qi.p, Not(inst)))
					polFs = append(polFs, Not(inst))
				}
			}
		}
		if len(newAx) == 0 {
			break
		}
		axioms = append(axioms, newAx...)
		all = append(all, newAx...)
	}
	return axioms
}

func mentions(t *Term, name string) bool {
	found := false
	Walk(t, map[int]bool{}, func(x *Term) {
		if x.op == "var" && x.name == name {
			found = true
		}
	})
	return found
}

const (
	polPos = 1
	polNeg = 2
)

// polarities computes, for every quantifier placeholder, whether it occurs
// positively and/or negatively in the conjunction of fs.
func polarities(fs []*Term, qv map[string]*quantInfo) map[string]int {
	res := map[string]int{}
	seen := map[[2]int]bool{}
	type item struct {
		t *Term
		p int
	}
	var stack []item
	for _, f := range fs {
		stack = append(stack, item{f, polPos})
	}
	flip := func(p int) int {
		r := 0
		if p&polPos != 0 {
			r |= polNeg
		}
		if p&polNeg != 0 {
			r |= polPos
		}
		return r
	}
	for len(stack) > 0 {
		it := stack[len(stack)-1]
		stack = stack[:len(stack)-1]
		k := [2]int{it.t.id, it.p}
		if seen[k] {
			continue
		}
		seen[k] = true
		t := it.t
		switch t.op {
		case "var":
			if _, ok := qv[t.name]; ok {
				res[t.name] |= it.p
			}
		case "not":
			stack = append(stack, item{t.args[0], flip(it.p)})
		case "and", "or":
			for _, a := range t.args {
				stack = append(stack, item{a, it.p})
			}
		case "ite":
			stack = append(stack, item{t.args[0], polPos | polNeg})
			if t.sort == BoolSort {
				stack = append(stack, item{t.args[1], it.p}, item{t.args[2], it.p})
			} else {
				stack = append(stack, item{t.args[1], polPos | polNeg}, item{t.args[2], polPos | polNeg})
			}
		default:
			for _, a := range t.args {
				stack = append(stack, item{a, polPos | polNeg})
			}
		}
	}
	return res
}
