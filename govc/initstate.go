package main

import (
	"fmt"
	"os"
	"go/types"

	"golang.org/x/tools/go/ssa"
	"golang.org/x/tools/go/ssa/ssautil"
)

// Package initialisation: the init functions of the repository's packages are
// executed symbolically once (leniently: anything outside the subset yields an
// arbitrary value). Globals that are never written outside init are treated as
// immutable and keep their init-time value; all other globals are arbitrary at
// the start of every verified call.

type initInfo struct {
	st       *State
	ro       map[*ssa.Global][]*Term
	literals map[string]uint64
	litByID  map[uint64]string
	allocSeq uint64
	fieldIDs map[string]uint64
	typeTags map[string]uint64
	ifaceVals map[int]ifaceVal
	strLitIDs map[string]uint64
	notes    []string
	facts    *initFacts
}

func (w *World) mutableGlobals() map[*ssa.Global]bool {
	mut := map[*ssa.Global]bool{}
	fns := ssautil.AllFunctions(w.prog)
	for fn := range fns {
		isInit := fn.Name() == "init" && fn.Signature.Recv() == nil && fn.Parent() == nil
		for _, b := range fn.Blocks {
			for _, in := range b.Instrs {
				ops := in.Operands(nil)
				for _, op := range ops {
					if op == nil || *op == nil {
						continue
					}
					g, ok := (*op).(*ssa.Global)
					if !ok {
						continue
					}
					if isInit && fn.Pkg == g.Pkg {
						continue
					}
					if !readOnlyUse(in, g) {
						mut[g] = true
					}
				}
			}
		}
	}
	return mut
}

// readOnlyUse: instruction `in` uses the address v only to read.
func readOnlyUse(in ssa.Instruction, v ssa.Value) bool {
	switch x := in.(type) {
	case *ssa.UnOp:
		return true // load
	case *ssa.FieldAddr:
		return allReadOnly(x)
	case *ssa.IndexAddr:
		return allReadOnly(x)
	case *ssa.DebugRef:
		return true
	case *ssa.Slice:
		// slicing a global array: treat as escaping
		return false
	}
	return false
}

func allReadOnly(v ssa.Value) bool {
	refs := v.Referrers()
	if refs == nil {
		return false
	}
	for _, r := range *refs {
		if st, ok := r.(*ssa.Store); ok && st.Addr == v {
			return false
		}
		if !readOnlyUse(r, v) {
			return false
		}
	}
	return true
}

func (w *World) buildInit() *initInfo {
	if w.init != nil {
		return w.init
	}
	e := NewEngine(w.prog)
	e.lenient = true
	litLookup = e.litRead
	lenientNow = true
	defer func() { lenientNow = false }()
	e.contracts = map[*ssa.Function]*ssa.Function{}
	e.invs, e.decs, e.unrolls = w.invs, w.decs, w.unrolls
	e.trueInv = w.trueInv
	e.frames = w.frames
	st := &State{ cells: map[cellKey][]*Term{}, mems: map[string]*Mem{}, clos: map[cellKey]*Closure{}, caddr: map[cellKey]*Addr{}, ghost: map[string]*Term{}}
	info := &initInfo{ro: map[*ssa.Global][]*Term{}}
	mut := w.mutableGlobals()
	// repository packages in dependency order (fastlog first)
	var order []*ssa.Package
	seen := map[*ssa.Package]bool{}
	var visit func(p *ssa.Package)
	visit = func(p *ssa.Package) {
		if seen[p] {
			return
		}
		seen[p] = true
		for _, imp := range p.Pkg.Imports() {
			if ip := w.prog.Package(imp); ip != nil && isRepoPkg(ip) {
				visit(ip)
			}
		}
		order = append(order, p)
	}
	for _, p := range w.pkgs {
		if isRepoPkg(p) {
			visit(p)
		}
	}
	for _, p := range order {
		initFn := p.Func("init")
		if initFn == nil || initFn.Blocks == nil {
			continue
		}
		e.topPkg = p.Pkg.Path()
		e.initPkg = p
		func() {
			defer func() {
				if r := recover(); r != nil {
					info.notes = append(info.notes, fmt.Sprintf("init of %s not fully executed: %v", p.Pkg.Path(), r))
				}
			}()
			fr := e.newFrame(initFn, nil)
			fr.quiet = true
			fr.spec = true
			rets := e.execFunc(fr, nil, st)
			var sts []*State
			for _, r := range rets {
				if !r.st.dead {
					sts = append(sts, r.st)
				}
			}
			if len(sts) > 0 {
				st, _ = mergeStates(sts)
			}
			if len(fr.localRegions) > 0 {
				dead := map[uint64]bool{}
				for _, r := range fr.localRegions {
					dead[r] = true
				}
				for name, mm := range st.mems {
					if len(mm.ksort) == 2 {
						st.mems[name] = stripRegions(mm, dead, 0, map[*Mem]*Mem{})
					}
				}
			}
		}()
		// record immutable globals of this package
		for _, m := range p.Members {
			g, ok := m.(*ssa.Global)
			if !ok || mut[g] {
				continue
			}
			t := g.Type().(*types.Pointer).Elem()
			ls, ok := tryLeaves(t)
			if !ok {
				continue
			}
			ts := make([]*Term, len(ls))
			for i, l := range ls {
				name := globalMemName(g, l)
				if mm, ok := st.mems[name]; ok {
					ts[i] = mm.Read(nil)
				} else if l.sort == BoolSort {
					ts[i] = False
				} else {
					ts[i] = BVConst(0, l.sort)
				}
			}
			info.ro[g] = ts
		}
	}
	// memories that init only wrote at constant locations become facts about the
	// base memory (added to a query only for the locations it mentions), so that
	// reads through symbolic regions do not drag the whole init history along
	info.facts = flattenInitMems(st)
	// path facts collected during init (e.g. non-nil error handles) are kept
	info.st = st
	info.literals, info.litByID = e.literals, e.litByID
	info.allocSeq = e.allocSeq
	info.fieldIDs, info.typeTags, info.ifaceVals, info.strLitIDs = e.fieldIDs, e.typeTags, e.ifaceVals, e.strLitIDs
	w.init = info
	return info
}

func tryLeaves(t types.Type) (ls []Leaf, ok bool) {
	defer func() {
		if r := recover(); r != nil {
			ok = false
		}
	}()
	return leavesOf(t), true
}

func isRepoPkg(p *ssa.Package) bool {
	path := p.Pkg.Path()
	return len(path) >= len("github.com/irai/packet") && path[:len("github.com/irai/packet")] == "github.com/irai/packet"
}

type initPoint struct {
	keys []*Term
	val  *Term
}

type initFacts struct {
	base     map[string]*Mem                  // memory name -> base node
	points   map[string]map[string]initPoint  // memory name -> key string -> point
	byRegion map[string]map[uint64][]initPoint // memory name -> first key const -> points
	fills    map[string]map[uint64]*Term      // memory name -> first key const -> fill value
}

// flattenInitMems rewrites st.mems in place.
func flattenInitMems(st *State) *initFacts {
	f := &initFacts{base: map[string]*Mem{}, points: map[string]map[string]initPoint{}, byRegion: map[string]map[uint64][]initPoint{}, fills: map[string]map[uint64]*Term{}}
	for name, m := range st.mems {
		// collect the chain oldest-first; give up on anything but constant point writes and fills
		var chain []*Mem
		ok := true
		for x := m; x != nil; x = x.prev {
			if x.kind == MBase {
				break
			}
			if x.kind == MWrite {
				for _, k := range x.keys {
					if !k.IsConst() {
						ok = false
					}
				}
			} else if x.kind == MFill {
				if !x.region.IsConst() {
					ok = false
				}
			} else if x.kind == MCopy {
				if !(x.region.IsConst() && x.dst.IsConst() && x.n.IsConst() && x.n.val.BitLen() < 13) {
					ok = false
				}
			} else {
				ok = false
			}
			chain = append(chain, x)
		}
		if !ok || len(chain) == 0 {
			if os.Getenv("GOVC_DEBUG_INIT") != "" && len(chain) > 0 {
				kinds := map[MemKind]int{}
				for _, x := range chain {
					kinds[x.kind]++
					if x.kind == MCopy && !(x.region.IsConst() && x.dst.IsConst() && x.n.IsConst()) {
						fmt.Printf("INIT %s: copy region=%s dst=%s n=%s\n", name, x.region, x.dst, x.n)
					}
					if x.kind == MWrite {
						for _, k := range x.keys {
							if !k.IsConst() {
								fmt.Printf("INIT %s: write key %s\n", name, k)
							}
						}
					}
				}
				fmt.Printf("INIT %s not flattened: %v\n", name, kinds)
			}
			continue
		}
		base := NewBaseMem(name, m.ksort, m.sort, "M0."+name)
		pts := map[string]initPoint{}
		fills := map[uint64]*Term{}
		for j := len(chain) - 1; j >= 0; j-- {
			x := chain[j]
			if x.kind == MCopy {
				n := x.n.val.Int64()
				for k := int64(0); k < n; k++ {
					keys := []*Term{x.region, BVAdd(x.dst, BVConst(k, IntSort))}
					v := x.src.Read([]*Term{x.srcRegion, BVAdd(x.srcOff, BVConst(k, IntSort))})
					pts[keyStr(keys)] = initPoint{keys, v}
				}
				continue
			}
			if x.kind == MFill {
				r := x.region.val.Uint64()
				fills[r] = x.val
				// a fill overrides earlier writes to that region
				for ks, p := range pts {
					if p.keys[0].val.Uint64() == r {
						delete(pts, ks)
					}
				}
				continue
			}
			pts[keyStr(x.keys)] = initPoint{x.keys, x.val}
		}
		f.base[name] = base
		f.points[name] = pts
		f.fills[name] = fills
		br := map[uint64][]initPoint{}
		for _, p := range pts {
			if len(p.keys) > 0 {
				r := p.keys[0].val.Uint64()
				br[r] = append(br[r], p)
			}
		}
		f.byRegion[name] = br
		st.mems[name] = base
	}
	return f
}

// initFactsFor returns the facts about init-time memory relevant to the base
// memory reads occurring in fs.
func (e *Engine) initFactsFor(fs []*Term) []*Term {
	f := e.initFacts
	if f == nil {
		return nil
	}
	ufToMem := map[string]string{}
	for name, b := range f.base {
		ufToMem[b.uf] = name
	}
	var out []*Term
	seenApp := map[int]bool{}
	seen := map[int]bool{}
	for _, x := range fs {
		Walk(x, seen, func(t *Term) {
			if t.op != "uf" && t.op != "var" {
				return
			}
			name, ok := ufToMem[t.name]
			if !ok || seenApp[t.id] {
				return
			}
			seenApp[t.id] = true
			keys := t.args
			if len(keys) == 0 {
				if p, ok := f.points[name][""]; ok {
					out = append(out, Eq(t, p.val))
				}
				return
			}
			if !keys[0].IsConst() {
				return // symbolic first key: nothing is asserted (weaker hypotheses, sound)
			}
			r := keys[0].val.Uint64()
			allConst := true
			for _, k := range keys {
				if !k.IsConst() {
					allConst = false
				}
			}
			if allConst {
				if p, ok := f.points[name][keyStr(keys)]; ok {
					out = append(out, Eq(t, p.val))
				} else if v, ok := f.fills[name][r]; ok {
					out = append(out, Eq(t, v))
				}
				return
			}
			// constant region / object, symbolic rest: one conditional fact per init write there
			var none []*Term
			for _, p := range f.byRegion[name][r] {
				c := keysEq(keys, p.keys)
				out = append(out, Implies(c, Eq(t, p.val)))
				none = append(none, Not(c))
			}
			if v, ok := f.fills[name][r]; ok {
				out = append(out, Implies(And(none...), Eq(t, v)))
			}
		})
	}
	return out
}
