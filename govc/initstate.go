package main

import (
	"fmt"
	"go/types"

	"golang.org/x/tools/go/ssa"
	"golang.org/x/tools/go/ssa/ssautil"
)

// Package initialisation: the init functions of the repository's packages are
// executed symbolically once (leniently: anything outside the subset yields an
// arbitrary value). Globals that are never written outside init are treated as
// immutable and keep their init-time value; all other globals are arbitrary at
// the start of every verified call.

type initInfo struct {
	st       *State
	ro       map[*ssa.Global][]*Term
	literals map[string]uint64
	litByID  map[uint64]string
	allocSeq uint64
	fieldIDs map[string]uint64
	typeTags map[string]uint64
	ifaceVals map[int]ifaceVal
	strLitIDs map[string]uint64
	notes    []string
}

func (w *World) mutableGlobals() map[*ssa.Global]bool {
	mut := map[*ssa.Global]bool{}
	fns := ssautil.AllFunctions(w.prog)
	for fn := range fns {
		isInit := fn.Name() == "init" && fn.Signature.Recv() == nil && fn.Parent() == nil
		for _, b := range fn.Blocks {
			for _, in := range b.Instrs {
				ops := in.Operands(nil)
				for _, op := range ops {
					if op == nil || *op == nil {
						continue
					}
					g, ok := (*op).(*ssa.Global)
					if !ok {
						continue
					}
					if isInit && fn.Pkg == g.Pkg {
						continue
					}
					if !readOnlyUse(in, g) {
						mut[g] = true
					}
				}
			}
		}
	}
	return mut
}

// readOnlyUse: instruction `in` uses the address v only to read.
func readOnlyUse(in ssa.Instruction, v ssa.Value) bool {
	switch x := in.(type) {
	case *ssa.UnOp:
		return true // load
	case *ssa.FieldAddr:
		return allReadOnly(x)
	case *ssa.IndexAddr:
		return allReadOnly(x)
	case *ssa.DebugRef:
		return true
	case *ssa.Slice:
		// slicing a global array: treat as escaping
		return false
	}
	return false
}

func allReadOnly(v ssa.Value) bool {
	refs := v.Referrers()
	if refs == nil {
		return false
	}
	for _, r := range *refs {
		if st, ok := r.(*ssa.Store); ok && st.Addr == v {
			return false
		}
		if !readOnlyUse(r, v) {
			return false
		}
	}
	return true
}

func (w *World) buildInit() *initInfo {
	if w.init != nil {
		return w.init
	}
	e := NewEngine(w.prog)
	e.lenient = true
	litLookup = e.litRead
	lenientNow = true
	defer func() { lenientNow = false }()
	e.contracts = map[*ssa.Function]*ssa.Function{}
	e.invs, e.decs, e.unrolls = w.invs, w.decs, w.unrolls
	e.trueInv = w.trueInv
	st := &State{ cells: map[cellKey][]*Term{}, mems: map[string]*Mem{}, clos: map[cellKey]*Closure{}, caddr: map[cellKey]*Addr{}, ghost: map[string]*Term{}}
	info := &initInfo{ro: map[*ssa.Global][]*Term{}}
	mut := w.mutableGlobals()
	// repository packages in dependency order (fastlog first)
	var order []*ssa.Package
	seen := map[*ssa.Package]bool{}
	var visit func(p *ssa.Package)
	visit = func(p *ssa.Package) {
		if seen[p] {
			return
		}
		seen[p] = true
		for _, imp := range p.Pkg.Imports() {
			if ip := w.prog.Package(imp); ip != nil && isRepoPkg(ip) {
				visit(ip)
			}
		}
		order = append(order, p)
	}
	for _, p := range w.pkgs {
		if isRepoPkg(p) {
			visit(p)
		}
	}
	for _, p := range order {
		initFn := p.Func("init")
		if initFn == nil || initFn.Blocks == nil {
			continue
		}
		e.topPkg = p.Pkg.Path()
		e.initPkg = p
		func() {
			defer func() {
				if r := recover(); r != nil {
					info.notes = append(info.notes, fmt.Sprintf("init of %s not fully executed: %v", p.Pkg.Path(), r))
				}
			}()
			fr := e.newFrame(initFn, nil)
			fr.quiet = true
			fr.spec = true
			rets := e.execFunc(fr, nil, st)
			var sts []*State
			for _, r := range rets {
				if !r.st.dead {
					sts = append(sts, r.st)
				}
			}
			if len(sts) > 0 {
				st, _ = mergeStates(sts)
			}
			if len(fr.localRegions) > 0 {
				dead := map[uint64]bool{}
				for _, r := range fr.localRegions {
					dead[r] = true
				}
				for name, mm := range st.mems {
					if len(mm.ksort) == 2 {
						st.mems[name] = stripRegions(mm, dead, 0, map[*Mem]*Mem{})
					}
				}
			}
		}()
		// record immutable globals of this package
		for _, m := range p.Members {
			g, ok := m.(*ssa.Global)
			if !ok || mut[g] {
				continue
			}
			t := g.Type().(*types.Pointer).Elem()
			ls, ok := tryLeaves(t)
			if !ok {
				continue
			}
			ts := make([]*Term, len(ls))
			for i, l := range ls {
				name := globalMemName(g, l)
				if mm, ok := st.mems[name]; ok {
					ts[i] = mm.Read(nil)
				} else if l.sort == BoolSort {
					ts[i] = False
				} else {
					ts[i] = BVConst(0, l.sort)
				}
			}
			info.ro[g] = ts
		}
	}
	// path facts collected during init (e.g. non-nil error handles) are kept
	info.st = st
	info.literals, info.litByID = e.literals, e.litByID
	info.allocSeq = e.allocSeq
	info.fieldIDs, info.typeTags, info.ifaceVals, info.strLitIDs = e.fieldIDs, e.typeTags, e.ifaceVals, e.strLitIDs
	w.init = info
	return info
}

func tryLeaves(t types.Type) (ls []Leaf, ok bool) {
	defer func() {
		if r := recover(); r != nil {
			ok = false
		}
	}()
	return leavesOf(t), true
}

func isRepoPkg(p *ssa.Package) bool {
	path := p.Pkg.Path()
	return len(path) >= len("github.com/irai/packet") && path[:len("github.com/irai/packet")] == "github.com/irai/packet"
}
