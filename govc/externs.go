package main

import (
	"os"
	"fmt"
	"go/types"
	"strings"

	"golang.org/x/tools/go/ssa"
)

func fullName(fn *ssa.Function) string {
	if fn.Pkg == nil {
		if fn.Signature.Recv() != nil {
			return fnRecvPath(fn) + "." + fn.Name()
		}
		return fn.String()
	}
	p := fn.Pkg.Pkg.Path()
	if recv := fn.Signature.Recv(); recv != nil {
		return fnRecvPath(fn) + "." + fn.Name()
	}
	return p + "." + fn.Name()
}

func fnRecvPath(fn *ssa.Function) string {
	t := fn.Signature.Recv().Type()
	ptr := ""
	if p, ok := t.(*types.Pointer); ok {
		t = p.Elem()
		ptr = "*"
	}
	return "(" + ptr + typeKey(t) + ")"
}

// extern handles calls whose semantics are built into govc. A nil result means
// "not an extern".
func (e *Engine) extern(fr *Frame, st *State, callee *ssa.Function, args []Value, site ssa.Instruction) []Value {
	name := fullName(callee)
	switch name {
	case "bytes.Equal":
		a, b := args[0].T, args[1].T
		return []Value{scalar(e.strEq(st, a[:3], b[:3]))}
	case "(*sync.Mutex).Lock", "(*sync.Mutex).Unlock", "(*sync.RWMutex).Lock", "(*sync.RWMutex).Unlock",
		"(*sync.RWMutex).RLock", "(*sync.RWMutex).RUnlock", "(*sync.WaitGroup).Add", "(*sync.WaitGroup).Done", "(*sync.WaitGroup).Wait":
		e.assumedExterns["sync primitives are no-ops (sequential semantics)"] = true
		return []Value{}
	case "sync/atomic.StoreUint32", "sync/atomic.StoreInt32", "sync/atomic.StoreUint64", "sync/atomic.StoreInt64":
		e.store(fr, st, args[0].A, args[1], site)
		return []Value{}
	case "sync/atomic.LoadUint32", "sync/atomic.LoadInt32", "sync/atomic.LoadUint64", "sync/atomic.LoadInt64":
		return []Value{e.load(fr, st, args[0].A, site)}
	case "sync/atomic.AddUint32", "sync/atomic.AddInt32", "sync/atomic.AddUint64", "sync/atomic.AddInt64":
		v := e.load(fr, st, args[0].A, site)
		n := scalar(BVAdd(v.term(), args[1].term()))
		e.store(fr, st, args[0].A, n, site)
		return []Value{n}
	case "sync/atomic.CompareAndSwapUint32", "sync/atomic.CompareAndSwapInt32":
		v := e.load(fr, st, args[0].A, site)
		c := Eq(v.term(), args[1].term())
		e.store(fr, st, args[0].A, scalar(Ite(c, args[2].term(), v.term())), site)
		return []Value{scalar(c)}
	case "fmt.Errorf", "errors.New":
		// a fresh non-nil error value
		e.bumpAllocs(st)
		e.allocSeq++
		h := BVConstU(0x7e000000+e.allocSeq, 64)
		return []Value{{T: []*Term{e.typeTagNamed("*errors.errorString"), h}}}
	case "errors.Is":
		return []Value{scalar(FreshVar("errors.Is", BoolSort))}
	case "time.Now":
		ts := freshTerms("now", callee.Signature.Results().At(0).Type())
		return []Value{{T: ts}}
	case "time.NewTicker", "time.NewTimer":
		// a fresh, non-nil ticker/timer object with arbitrary content
		e.assumedExterns[name+": returns a fresh non-nil object (no effect on modelled state)"] = true
		t := callee.Signature.Results().At(0).Type().(*types.Pointer).Elem()
		a := e.allocObject(st, t)
		for _, l := range leavesOf(t) {
			mn := objMemName(t, l)
			st.mems[mn] = e.mem(st, mn, objKS, l.sort).Write([]*Term{a.ref}, FreshVar("ticker."+l.path, l.sort))
		}
		return []Value{{A: a}}
	case "(*sync.Pool).Put":
		return []Value{}
	case "(*sync.Pool).Get":
		return e.poolGet(fr, st, callee, site)
	case "runtime.KeepAlive":
		return []Value{}
	case "(net/netip.Addr).v6", "(net/netip.Addr).v6u16":
		// semantics of the two accessors written out (the source goes through an
		// array of interior pointers, which is outside the modelled subset):
		// v6(i) is byte i, v6u16(i) the i-th big-endian 16-bit group of hi:lo.
		hi, lo := args[0].T[0], args[0].T[1]
		full := Concat(hi, lo) // 128 bits
		i := ZeroExt(args[1].term(), 128)
		if strings.HasSuffix(name, ".v6") {
			sh := BVMul(BVSub(BVConst(15, 128), BVAnd(i, BVConst(15, 128))), BVConst(8, 128))
			return []Value{scalar(Extract(BVLshr(full, sh), 7, 0))}
		}
		sh := BVMul(BVSub(BVConst(7, 128), BVAnd(i, BVConst(7, 128))), BVConst(16, 128))
		return []Value{scalar(Extract(BVLshr(full, sh), 15, 0))}
	}
	if strings.HasPrefix(name, "sync/atomic.") || strings.HasPrefix(name, "(*sync/atomic.") {
		unsup("atomic operation %s", name)
	}
	return nil
}

func (e *Engine) typeTagNamed(k string) *Term {
	id, ok := e.typeTags[k]
	if !ok {
		id = uint64(len(e.typeTags) + 1)
		e.typeTags[k] = id
	}
	return BVConstU(id, RefSort)
}

// poolGet: the two pools of the repository return a pointer to a recycled
// object with arbitrary contents (that is what exposes stale-byte bugs).
func (e *Engine) poolGet(fr *Frame, st *State, callee *ssa.Function, site ssa.Instruction) []Value {
	c := site.(ssa.CallInstruction).Common()
	g, ok := c.Args[0].(*ssa.Global)
	if !ok {
		unsup("sync.Pool.Get on non-global pool")
	}
	var pt types.Type
	// find the New closure's result type from the package init
	for _, m := range g.Pkg.Members {
		_ = m
	}
	initFn := g.Pkg.Func("init")
	for _, anon := range initFn.AnonFuncs {
		for _, b := range anon.Blocks {
			for _, in := range b.Instrs {
				if mi, ok := in.(*ssa.MakeInterface); ok {
					if isPoolNewFor(initFn, anon, g) {
						pt = mi.X.Type()
					}
				}
			}
		}
	}
	if pt == nil {
		unsup("cannot determine element type of pool %s", g.Name())
	}
	e.assumedExterns[fmt.Sprintf("sync.Pool %s.Get returns a non-nil %s with arbitrary contents", g.Name(), pt)] = true
	el := pt.Underlying().(*types.Pointer).Elem()
	var v Value
	if arr, ok := el.Underlying().(*types.Array); ok {
		r := e.freshRegion()
		for _, l := range leavesOf(arr.Elem()) {
			name := elemMemName(arr.Elem(), l)
			st.mems[name] = e.mem(st, name, elemKS, l.sort).HavocRange(r, BVConst(0, IntSort), BVConst(arr.Len(), IntSort))
		}
		v = Value{A: &Addr{kind: AArr, typ: el, elem: arr.Elem(), region: r, idx: BVConst(0, IntSort), n: arr.Len()}}
	} else {
		ref := e.freshRef()
		for _, l := range leavesOf(el) {
			name := objMemName(el, l)
			x := FreshVar("pool."+l.path, l.sort)
			st.mems[name] = e.mem(st, name, objKS, l.sort).Write([]*Term{ref}, x)
		}
		e.assumeObjWF(st, el, ref)
		// embedded arrays: arbitrary contents
		v = Value{A: &Addr{kind: AHeap, typ: el, root: el, ref: ref}}
	}
	return []Value{e.makeInterface(fr, st, v, pt)}
}

func (e *Engine) assumeObjWF(st *State, t types.Type, ref *Term) {
	ls := leavesOf(t)
	ts := make([]*Term, len(ls))
	for i, l := range ls {
		ts[i] = e.mem(st, objMemName(t, l), objKS, l.sort).Read([]*Term{ref})
	}
	st.assume(wfAssumptions(ts, t, false))
}

func isPoolNewFor(initFn, anon *ssa.Function, g *ssa.Global) bool {
	// look for: store of MakeClosure/Function anon into field New of global g
	for _, b := range initFn.Blocks {
		for _, in := range b.Instrs {
			s, ok := in.(*ssa.Store)
			if !ok {
				continue
			}
			if fa, ok := s.Addr.(*ssa.FieldAddr); ok {
				if gg, ok := fa.X.(*ssa.Global); ok && gg == g {
					switch v := s.Val.(type) {
					case *ssa.Function:
						if v == anon {
							return true
						}
					case *ssa.MakeClosure:
						if v.Fn == anon {
							return true
						}
					}
				}
			}
		}
	}
	return false
}

func (e *Engine) externInvoke(fr *Frame, st *State, key string, c *ssa.CallCommon, recv Value, args []Value, site ssa.Instruction) []Value {
	switch {
	case strings.HasSuffix(key, "PacketConn).WriteTo"):
		// the connection: the frame is recorded in the ghost wire log; the call
		// itself is total, does not touch modelled memory and may fail
		e.wireSend(fr, st, args[0].T, site)
		e.assumedExterns["net.PacketConn.WriteTo: total, no effect on modelled state (frames are recorded in the ghost wire log)"] = true
		return e.havocResults(st, c.Signature(), "writeto")
	case strings.HasSuffix(key, "(error).Error"):
		ts := freshTerms("errstr", types.Typ[types.String])
		st.assume(wfAssumptions(ts, types.Typ[types.String], false))
		return []Value{{T: ts}}
	}
	return nil
}

func (e *Engine) externMods(callee *ssa.Function, c *ssa.CallCommon) ([]string, bool) {
	name := fullName(callee)
	switch {
	case name == "bytes.Equal", strings.HasPrefix(name, "(*sync."), name == "fmt.Errorf", name == "errors.New", name == "time.Now", name == "errors.Is", name == "time.NewTicker", name == "time.NewTimer":
		return nil, true
	case strings.HasPrefix(name, "sync/atomic."):
		set := map[string]bool{}
		if len(c.Args) > 0 {
			e.addrMods(c.Args[0], nil, set)
		}
		var out []string
		for k := range set {
			out = append(out, k)
		}
		return out, true
	}
	return nil, false
}

// assumeGlobalFacts: facts about well-known immutable globals.
func (e *Engine) assumeGlobalFacts(st *State, g *ssa.Global, ts []*Term) {
	switch g.Pkg.Pkg.Path() + "." + g.Name() {
	case "net/netip.z4":
		e.assumedExterns["net/netip: z0, z4, z6noz are pairwise distinct handles (set once in package init)"] = true
		st.assume(Eq(ts[0], BVConst(0x7fff0004, RefSort)))
	case "net/netip.z6noz":
		e.assumedExterns["net/netip: z0, z4, z6noz are pairwise distinct handles (set once in package init)"] = true
		st.assume(Eq(ts[0], BVConst(0x7fff0006, RefSort)))
	case "net/netip.z0":
		st.assume(Eq(ts[0], BVConst(0, RefSort)))
	}
}

// ---------- recursive spec functions ----------

func (e *Engine) isRecursiveSpec(fn *ssa.Function) bool {
	if !strings.HasPrefix(fn.Name(), "spec_") {
		return false
	}
	if strings.HasPrefix(fn.Name(), "spec_opq_") {
		return true
	}
	if r, ok := e.specUF[fn.Name()]; ok {
		return r
	}
	rec := false
	for _, b := range fn.Blocks {
		for _, in := range b.Instrs {
			if c, ok := in.(*ssa.Call); ok && c.Call.StaticCallee() == fn {
				rec = true
			}
		}
	}
	e.specUF[fn.Name()] = rec
	return rec
}

func (e *Engine) applySpecUF(fr *Frame, st *State, fn *ssa.Function, args []Value, site ssa.Instruction) []Value {
	res := fn.Signature.Results()
	if res.Len() != 1 || nLeaves(res.At(0).Type()) != 1 {
		unsup("recursive spec function %s must return one scalar", fn.Name())
	}
	var ts []*Term
	readsBytes := false
	wholeBytes := false
	pristine := true // the elements of non-byte slice arguments are still their pre-state values
	var elemVers []string
	var regions []*Term
	for i, a := range args {
		t := fn.Signature.Params().At(i).Type()
		fl := e.flat(a, t)
		ts = append(ts, fl...)
		switch u := t.Underlying().(type) {
		case *types.Slice:
			readsBytes = true
			regions = append(regions, fl[0])
			// slices of other element types: the element memories are read as well
			if b, ok := u.Elem().Underlying().(*types.Basic); !ok || b.Kind() != types.Uint8 {
				for _, l := range leavesOf(u.Elem()) {
					mn := elemMemName(u.Elem(), l)
					em := effectiveMem(e.mem(st, mn, elemKS, l.sort), fl[0])
					if em != nil {
						elemVers = append(elemVers, fmt.Sprint(em.id))
						if em.kind != MBase {
							pristine = false
						}
					}
				}
				// and whatever byte slices the elements hold: no region is known for those
				wholeBytes = true
			}
		case *types.Basic:
			if isStringType(t) {
				readsBytes = true
				regions = append(regions, fl[0])
			}
		}
	}
	name := fn.Name()
	if readsBytes {
		// the version of the byte memory as far as the argument regions are concerned: writes
		// to regions that cannot be one of them do not change the function's value
		m := e.mem(st, byteMemName, elemKS, 8)
		id := -1
		for _, r := range regions {
			if em := effectiveMem(m, r); em != nil && em.id > id {
				id = em.id
			}
		}
		if wholeBytes && pristine {
			// the byte slices held by pre-state elements are pre-state regions: writes to memory
			// allocated since do not concern them
			id = effectiveMemPre(m).id
		} else if id < 0 || wholeBytes {
			id = m.id
		}
		if os.Getenv("GOVC_DEBUG_MEM") != "" {
			fmt.Fprintf(os.Stderr, "specUF %s: mem %d -> %d;", fn.Name(), m.id, id)
			for x, n := m, 0; x != nil && n < 12; x, n = x.prev, n+1 {
				fmt.Fprintf(os.Stderr, " [%d k=%d r=%v]", x.id, x.kind, x.region)
			}
			fmt.Fprintln(os.Stderr)
		}
		name = fmt.Sprintf("%s.m%d", name, id)
		if len(elemVers) > 0 {
			name += ".e" + strings.Join(elemVers, "_")
		}
	}
	rs := leavesOf(res.At(0).Type())[0].sort
	app := UF(name, rs, ts...)
	key := fmt.Sprintf("%s|%d", name, app.id)
	depth := e.unfolding[fn]
	opaque := strings.HasPrefix(fn.Name(), "spec_opq_") && !e.reveal
	if depth < e.unfoldFuel && !e.axiomSeen[key] && !opaque {
		e.axiomSeen[key] = true
		e.unfolding[fn] = depth + 1
		nf := e.newFrame(fn, fr)
		nf.spec = true
		nf.quiet = true
		nf.prefix = fr.prefix
		tmp := st.clone()
		// temporarily allow executing the body: recursive calls inside hit this function again with depth+1
		savedStack := e.stack
		e.stack = nil
		vals := e.finishCall(fr, tmp, nf, args, site)
		e.stack = savedStack
		e.unfolding[fn] = depth
		body := e.flat(vals[0], res.At(0).Type())[0]
		st.pc = tmp.pc
		st.assume(Eq(app, body))
		if e.unfoldFuel > 1 && !strings.HasPrefix(fn.Name(), "spec_opq_") {
			// with explicit fuel the unfolded body itself is used, so that sums
			// of words become syntactic sums
			e.unfoldCache[key] = body
			return []Value{scalar(body)}
		}
	} else if b, ok := e.unfoldCache[key]; ok && e.unfoldFuel > 1 {
		return []Value{scalar(b)}
	}
	return []Value{scalar(app)}
}
