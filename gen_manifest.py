#!/usr/bin/env python3
# Generates MANIFEST.json from the table below (run after changing claims).
import json, subprocess

CLAIMS = {
 "C01": ("every panic site of Session.Parse, of the Frame accessors and of every zero-argument getter of the 23 view types (under IsValid()==nil), plus the stay-inside-the-view and no-reslice-beyond-len (strictlen) conditions, is a verification condition generated from /repo's SSA and discharged by SMT for all byte strings, lengths and capacities",
         "host-table callees of Parse (findOrCreateHostWithLock, onlineTransition, echoNotify) enter through contracts; calls outside the repository are abstracted as total; known finding: Ether.Payload of a header-only frame exposes spare capacity"),
 "C02": ("field table: every getter of a valid view equals the RFC position (spec functions written from the RFCs); Parse's contract states PayloadID, offsets, addresses, ports and error-iff against the reference classifier spec_parse and is proved against the real body",
         "spec_parse / field table are the trusted reference; IPv6 trailing bytes are deliberately free (mayErr); Frame.Payload extent beyond the start offset not demanded"),
 "C03": ("every encoder (Ethernet, IPv4, IPv6, UDP, ARP, ICMP echo) has a contract stating the wire layout of the bytes it writes, its exact modifies set (frame obligations per write) and the ErrPayloadTooBig clause; round-trip lemmas decode the encoder output through the library's getters and through the C02 field table; NS/NA marshal and DNS query round trips are lemmas over the real code",
         "DHCPv4: AppendOptions/EncodeDHCP4 are proved total, in-bounds and header-correct for every buffer size and every option map of at most 20 values of at most 32 bytes (map iteration order-independent argument with an iteration counter); the byte-for-byte content of the option area (it depends on Go's map iteration order) is not compared with a reference; preconditions state that source slices do not overlap the destination buffer; composition with Parse: see evidence"),
 "C07": ("send paths under contract, each proved against the real body to hand exactly one complete, length-consistent frame to the connection with Ethernet source = host NIC MAC and the requested addresses/fields: ARP reply/request/announce, the purge probe (Session.arpRequest), ICMPv4 echo (IPv4 header checksum and ICMP checksum clauses over the C15 spec), ICMPv6 echo, NDP NS/NA and RS (hop limit 255 for link-local destinations; RS to ff02::2 behind 33:33:00:00:00:02, type 133 with the source link-layer option: defect repaired, the ICMPv6 header was missing), the NDP marshal functions, the DHCPv4 encoder, the IPv6 multicast constants; the ARP spoof loop's frames through a per-send predicate (vWireEach)",
         "NOT decided: the content of router advertisements (same repaired header defect, but the option list with DNSSL/RDNSS/prefix encoders is not under contract), sendDHCP4Packet and the dns_naming senders (mDNS/LLMNR/NBNS/SSDP), the ICMPv6 checksum value; histories: each send function is decided for all arguments, not the handlers' emission histories"),
 "C08": ("no panic and a termination measure for every loop: Parse (through C01), the lemmas stating what Parse establishes per payload class, and on exactly those predicates arp_spoofer.ProcessPacket, icmp_spoofer Handler4/Handler6.ProcessPacket (incl. NDP option parsing and router table update); payload-level decoders decodeName (recursion measure), DecodeQuestion, decodeRRs, DecodeAnswers, newParseOptions, hop-by-hop headers, DHCP4.ParseOptions, LLDP TLVs for arbitrary byte strings",
         "NOT covered: dhcp4_spoofer.ProcessPacket beyond its gate and the dns_naming processors (their loops are driven by x/net dnsmessage.Parser, for which no typestate contract was written); wall-clock bounds are not a contract notion: termination = a decreasing measure per loop and recursion"),
 "C10": ("escape obligations (vBorrowed): with the packet buffer declared on loan, every store of a byte-slice or string value into a heap object, package-level variable, map entry or slice element (including appended elements) performed by the code under verification is an obligation 'this is not a view of the borrowed buffer'; a borrowed view may only be passed to callees whose contracts declare the parameter borrowed or whose proved frame is byte ranges / the wire only. Decided for Session.Parse (steady-state path and everything up to the host lookup), IP4.IsValid, the fast path of findOrCreateHostWithLock, MACTable.findOrCreate (the retained MAC is a private copy: fresh region), Session.DHCPv4IPOffer, arp_spoofer.ProcessPacket and icmp_spoofer Handler4.ProcessPacket",
         "NOT decided: the creation path of findOrCreateHostWithLock beyond MACTable.findOrCreate (TRUSTED case), Handler6.ProcessPacket's router-advertisement learning (six stores of option values stay open without loop invariants about the collected views; the code copies with CopyMAC/CopyIP, no defect was found), the DHCP and DNS handlers (names, leases); results of abstracted external functions are assumed to be nil, new memory or memory reachable from their arguments; 'identical to a run with fresh buffers' is reduced to 'no retained value is a view of the buffer'"),
 "C13": ("ProcessPacket: at most one frame, a reply, forged only for a hunt-list sender asking for the router; StartHunt rejects/idempotent/frames other entries, StopHunt removes; spoofLoop: every forged frame goes to a MAC in the hunt list at the moment of the send, the corrective request with the router's real MAC is sent when the target is no longer hunted, nothing is sent after Close",
         "sequential semantics only: 'within one cycle', interleavings of StartHunt/StopHunt with the running goroutine and real time are schedule properties no contract here can state (mutexes are no-ops, go statements are not executed); probe-reject conditions are covered only as 'a reply to the requester'"),
 "C14": ("Handler6.StartHunt rejects IPv4, ignores non link-local targets, is idempotent per MAC (no second loop, list unchanged) and sends nothing itself; StopHunt removes the entry; the NA spoof loop: every frame it sends is a neighbour advertisement with the override flag, hop limit 255, the host NIC MAC as Ethernet source and as advertised link-layer address, addressed to the loop's own target, and is sent only while that MAC is in the hunt list, the handler is not closed and a router has been learned (per-send predicate, loop invariants over the router snapshot); ProcessPacket keeps the router table well formed (non-nil entries with IPv6 addresses); AddrList.index equals a recursive reference search",
         "NOT decided: that the router table records flags, preference, lifetimes, prefixes, MTU and DNS options exactly as an independent decoder reads them (every 4th RA only is processed, gated by a package-level counter; the option values are not compared with a reference); 'after StopHunt no further forged advertisement' only as: the loop re-checks membership before each round (sequential semantics; the goroutine hand-over is a schedule property)"),
 "C15": ("Checksum(b) == byte-swapped RFC 1071 checksum for every b up to 65535 bytes: loop invariant against a recursive little-endian word sum, byte-order independence by an inductive ghost-loop lemma over one's-complement addition lemmas (each discharged by bit-blasting)",
         "inputs longer than 65535 bytes excluded (uint32 accumulator); recursive spec functions assumed terminating; header/ICMP sums-to-zero lemmas: see evidence"),
 "C16": ("every view accessor of the 23 view types and of Frame returns a sub-slice of the caller's buffer (same region, offsets inside the view: write-through aliasing is the memory model's meaning of 'same region and offset'); Parse's views of the packet are the buffer itself at the decoded offsets; allocation clause over a ghost allocation counter: for an untagged IPv4/IPv6/ARP frame whose source is indexed in the host table, bound to the same MAC and online, Parse returns with the counter unchanged (fast path of findOrCreateHostWithLock, IP4.IsValid, echoNotify proved allocation-free on their success paths)",
         "the allocation counter counts go/ssa allocation sites of repository code (make, new, escaping composites, append growth, map inserts, string conversions, fmt.Errorf/errors.New); go/ssa's escape flag is an over-approximation of the compiler's, inlined net/netip helpers are taken to be allocation-free; the slow path of findOrCreateHostWithLock is a TRUSTED case (not taken in steady state); known finding: Ether.Payload of a header-only frame extends beyond the frame"),
 "C17": ("NameEntry.Merge: every attribute becomes the incoming value when one is given and is kept otherwise (never erased), modified is reported exactly when one of the four attributes changed, Merge is idempotent (lemma over the contract); DNS decoding: decodeName / DecodeQuestion / decodeRRs / DecodeAnswers are total, bounded in recursion depth (255 pointer hops), reject names longer than 255 bytes, reserved label types, pointers and fixed fields outside the message, and return offsets inside the message; question type/class equal the big-endian fields",
         "NOT decided: equality of the decoded names and A/AAAA/CNAME/PTR records with an independent DNS implementation (no reference decoder for compressed names was written), and the dns_naming handler's stores (mDNS/NBNS); the Merge clauses are complete"),
 "C19": ("echoNotify(id) marks and removes exactly the waiter registered under id, leaves every other waiter untouched and is a no-op for an identifier nobody waits for; ping/Ping6 draw a fresh identifier (the counter advances), send exactly one echo request carrying it, and leave no waiter entry behind on any return path (including send errors: defect repaired); Parse hands an identifier to echoNotify only for a valid echo reply (Parse's contract applies echoNotify's)",
         "the hand-over between the packet goroutine and the waiting goroutine (nil iff a matching reply arrives before the timeout, concurrent pings) is a schedule/real-time property: with sequential semantics nothing can answer, so a completed wait returns ErrTimeout; wrap-around of the 16-bit identifier onto a still pending waiter is excluded by precondition"),
 "C20": ("fastlog appenders: in-bounds under their stated room precondition, exact index arithmetic, rendered bytes for MAC / hex / bool / string fields equal the reference renderer; ByteArray, StringArray, IPArray proved panic-free and in-buffer for ANY value length; appendIP6 in-bounds for all addresses",
         "decimal digit *content* of printInt and the RFC 5952 text of appendIP6 are not decided (length and position only); Int/IP render through strconv/netip themselves; appenders that clobber the whole buffer in their modifies clause are listed in evidence"),
}
TECH = "contract-based deductive verification: go/ssa weakest-precondition VCs (govc), z3 5.1 / cvc5 1.0 / z3 4.8"
NA = {
 "C04": "a statement over histories of frames, DHCP updates and elapsed time: its per-operation refinement needs the table invariant of C05 as the frame of every operation (what else did not change); that invariant is not established (see C05), and the reference model of discovery/ageing over time has no contract form here",
 "C05": "not established: the local contracts exist (MACEntry.unlink, MACTable.findOrCreate/delete, Session.deleteHost, nested no-nil invariant) but preservation of the global invariant needs (a) separation of the per-entry HostList backing arrays (a fact about all pairs of entries), (b) postconditions relating a shifted slice to its old contents (no old() for whole slices in the harness language), (c) for printHostTable a cardinality argument (sum of list lengths == size of the index); see DESIGN.md 12.3",
 "C06": "exactly-once notification over a history of Parse/Notify calls: needs C05's invariant and a ghost history of the notification channel; channel sends are not modelled beyond a counter, and the goroutine that drains the channel is a schedule matter",
 "C11": "the DHCP server's handleDiscover/Request/Decline/Release and its lease table are not under contract: executed whole the handler lemma produces megabyte queries that time out (DESIGN.md 11.2), per-function contracts were not written; the property is moreover an invariant over all interleavings of several clients' messages and lease expiry",
 "C12": "same handler as C11: no contracts on the reply builders (offer/ack/nak) of handlers/dhcp4_spoofer; only the encoder underneath (EncodeDHCP4, AppendOptions) is proved (C03/C07)",
 "C18": "the lease file round trip goes through yaml/os (abstracted external code) and the lease table of C11; no contract within reach states what a truncated file decodes to",
 "C09": "quantifies over schedules (data races, deadlocks, quiescent points); a sequential contract verifier has no interleaving semantics, so no obligation it can generate distinguishes a racy program from a race-free one",
}
PENDING = "not claimed yet: contracts for this property are not discharged in the current build (see DESIGN.md build order)"

def main():
    checks=[]
    for pid,(text,note) in sorted(CLAIMS.items()):
        checks.append({
          "property_id": pid,
          "quick_cmd": f"bin/check {pid} quick",
          "thorough_cmd": f"bin/check {pid} thorough",
          "evidence_file": f"/verif/evidence/{pid}.json",
          "replay_cmd_template": "bin/check --replay {path}",
          "engine": "govc",
          "level_claimed": {"category":"proof","text":text,"design_ref":f"DESIGN.md section 3, {pid}"},
          "level_note": note + "; trusted: go/ssa, govc's SSA-to-SMT semantics, the solvers, sequential semantics; every assumption actually used is listed in the evidence file",
          "technique": TECH,
        })
    na=[]
    for i in range(1,21):
        pid=f"C{i:02d}"
        if pid in CLAIMS: continue
        na.append({"property_id":pid,"reason":NA.get(pid,PENDING)})
    commits=subprocess.run(["git","-C","/repo","log","--format=%h %s","--grep=^verif:"],capture_output=True,text=True).stdout.strip().split("\n")
    m={
     "version":1,
     "setup_cmd":"cd /verif/govc && GOFLAGS=-mod=mod GOPROXY=off GOSUMDB=off GOTOOLCHAIN=local go build -o ../bin/govc .",
     "hooks":{
       "guard":"verif",
       "enable":"-tags verif: the contract harnesses live in add-only files zz_*_verif.go; govc loads /repo with this tag; without it the files do not exist for the compiler",
       "baseline_off_cmd":"cd /repo && for p in . ./fastlog ./handlers/arp_spoofer ./handlers/icmp_spoofer ./handlers/dhcp4_spoofer ./handlers/dns_naming; do GOFLAGS=-mod=mod GOPROXY=off go test -json -vet=off -count=1 -timeout 25m $p; done; git -C /repo checkout -- handlers/dhcp4_spoofer/testDHCPConfig.yml",
       "source_commits":[c.split()[0] for c in commits if c],
       "add_only":True},
     "engines":[{"name":"govc","path":"/verif/govc","serves_properties":sorted(CLAIMS),"kind_free_text":"weakest-precondition VC generator over go/ssa; contracts are Go harness functions behind the build tag; obligations discharged by z3/cvc5; counterexamples replayed with go test -overlay"}],
     "checks":checks,
     "not_applicable":na,
     "notes":"fix: commits in /repo repair defects found by the obligations (see known_findings.txt for the list and for findings recorded instead of repaired)",
    }
    json.dump(m,open("/verif/MANIFEST.json","w"),indent=1)
main()
